"""C14 — equivalent specifications of the same problem give identical results.

Shape: pairwise differential monitor.  A case holds two (sometimes three) *specifications as data* of one
statistical problem (family + variant say which equivalence of the statement is exercised).  Both are realised
with the real code and compared on total_cov_mat, model values and cost_function_value at 3 common parameter
points (LINALG), on the uncertainty / constraint objects themselves (cov_mat, cov_mat_rel, cost(p), ...) and on
do_fit() results (OPTIM, same backend on both sides).
"""
import copy
import linecache
import os
import re
import shutil
import tempfile

import numpy as np

from vlib import dsl, gen
from vlib.models import DENSITIES, FAMILIES, Model
from vlib.monitor import Tol, fmt_exc, time_limit
from vlib.ref import hist_counts

PROPERTY = "C14"
TIERS = {"quick": {"shards": 8, "budget_s": 35}, "thorough": {"shards": 16, "budget_s": 400}}
RULE = (
    "one pair (or triple) of equivalent specifications per case, family in {rel-abs, cor-cov, simple-matrix, scalar-vector, constraint, "
    "wrapper, model-form, yaml} x variant x fit type {xy (x / y axis), indexed, hist, unbinned, custom, multi} x data of either sign "
    "(y shifted to straddle zero, the additive model constant shifted with it) x uncertainty sizes x correlation {0,(0,1),1} x "
    "reference {data, model} x constraint values of either sign x backend {iminuit, scipy} x 3 parameter points; the first cases of "
    "every shard enumerate one case per (family, variant, sub-type) stratum; non-trivial = the two specifications differ as data and at "
    "least one cost comparison was made; distinct by case hash"
)
ASSUMPTIONS = [
    "cost / covariance comparisons: |a-b| <= 1e-9 * (sum of |terms|) + 1e-12 (LINALG); sum of |terms| of a cost is bounded by |cost| + 2|ln det V| + 1",
    "do_fit comparisons (same backend, same start values on both sides): parameter values within 1e-2 sigma (iminuit) / 5e-2 sigma (scipy) of the "
    "first specification's reported sigma, cost within 1e-3 / 5e-3, parameter errors within 2e-2 relative",
    "relative sources with correlation > 0 and relative matrix sources / constraints are equivalent to the explicit matrix built with SIGNED "
    "sigma_i = rel_i * ref_i (the C02 definition, vlib.ref.source_cov / constraint_cov); for correlation 0 sigma_i = rel_i * |ref_i|",
    "wrapper functions are compared with explicitly constructed fits carrying the wrapper's documented defaults (relative y errors refer to the model "
    "unless errors_rel_to_model=False; hist_fit switches to the Gauss approximation when any error is given; bin_evaluation 'simpson'; profile -> asymmetric errors)",
    "histogram fits with model-relative sources appear only where both sides use the same model-relative source (wrapper <-> explicit); nothing is asserted "
    "about the size of such a source (open finding C01/hist-model-relative-source-refers-to-density-integral-not-N-times-integral)",
    "YAML shorthand for non-xy `errors` keys is documented as TODO in the user guide: only float scalars / float lists / a single mapping are exercised there",
    "configurations are generated with a positive-definite total covariance (an absolute base source on y is part of every chi2 problem)",
]
ANCHORS = [
    ("kafe2.core.error", "SimpleGaussianError._calculate_cov_mat"),
    ("kafe2.core.error", "SimpleGaussianError._calculate_cov_mat_generic"),
    ("kafe2.core.error", "MatrixGaussianError._calculate_cov_mat_from_cor_mat_and_error_array"),
    ("kafe2.core.error", "MatrixGaussianError._calculate_cov_mat_rel_from_cov"),
    ("kafe2.core.error", "MatrixGaussianError._calculate_cov_mat_from_cov_rel"),
    ("kafe2.core.constraint", "GaussianSimpleParameterConstraint.uncertainty"),
    ("kafe2.core.constraint", "GaussianSimpleParameterConstraint.uncertainty_rel"),
    ("kafe2.core.constraint", "GaussianSimpleParameterConstraint.cost"),
    ("kafe2.core.constraint", "GaussianMatrixParameterConstraint.cov_mat"),
    ("kafe2.core.constraint", "GaussianMatrixParameterConstraint.cov_mat_rel"),
    ("kafe2.core.constraint", "GaussianMatrixParameterConstraint.cor_mat"),
    ("kafe2.core.constraint", "GaussianMatrixParameterConstraint.cost"),
    ("kafe2.fit._base.container", "DataContainerBase.add_error"),
    ("kafe2.fit.xy.container", "XYContainer.add_error"),
    ("kafe2.fit.multi.fit", "MultiFit.add_error"),
    ("kafe2.fit.util.wrapper", "_fit_wrapper_generic"),
    ("kafe2.fit.util.wrapper", "_add_error_to_fit_generic"),
    ("kafe2.fit.util.wrapper", "xy_fit"),
    ("kafe2.fit.util.wrapper", "indexed_fit"),
    ("kafe2.fit.util.wrapper", "hist_fit"),
    ("kafe2.fit.util.wrapper", "unbinned_fit"),
    ("kafe2.fit.util.wrapper", "custom_fit"),
    ("kafe2.fit.util.wrapper", "k2Fit"),
    ("kafe2.fit.tools.fit_wrapper", "Fit"),
    ("kafe2.fit._base.model", "ModelFunctionBase.__init__"),
    ("kafe2.fit.representation.model.yaml_drepr", "_parse_function"),
    ("kafe2.fit.representation.model.yaml_drepr", "ModelFunctionYamlReader._process_string"),
    ("kafe2.fit.representation.error.common_error_tools", "process_error_sources"),
    ("kafe2.fit.representation.fit.yaml_drepr", "FitYamlReader._get_subspace_override_dict"),
    ("kafe2.fit.representation.fit.yaml_drepr", "FitYamlReader._convert_yaml_doc_to_object"),
    ("kafe2.fit.representation._yaml_base", "YamlReaderMixin._check_required_keywords_and_override_subspaces"),
]

FAMILY_NAMES = ["rel-abs", "cor-cov", "simple-matrix", "scalar-vector", "constraint", "wrapper", "model-form", "yaml"]


def floors(tier):
    return {
        "comparisons": {
            "cost_function_value": 250,
            "total_cov_mat": 150,
            "model": 200,
            "fit.parameter_values": 60,
            "fit.cost": 60,
            "fit.parameter_errors": 60,
            "source.cov_mat": 30,
            "source.cov_mat_rel": 10,
            "fit.asymmetric_parameter_errors": 5,
            "k2Fit.values": 1,
            "constraint.cost": 20,
            "constraint.cov_mat": 8,
            "parameter_names": 30,
            "parameter_defaults": 30,
        },
        "ops": ["do_fit", "wrapper-call", "yaml-load", "caller-container-changed-after-fit-was-built"],
        "reach": ["%s:%s" % a for a in ANCHORS],
        "strata": ["%s|%s|%s" % s for s in STRATA],
        "sets": {"family": len(FAMILY_NAMES), "variant": 40, "wrapper": 7, "model_form": 5, "ref-sign": 2},
        "distinct_nontrivial": 60,
    }


# ================================================================== small helpers
def r6(v):
    return float(np.round(float(v), 6))


def rl(a, nd=6):
    return [float(v) for v in np.round(np.asarray(a, dtype=float), nd)]


def rmat(a, nd=10):
    """exactly symmetric matrix as nested lists; nd=None keeps full precision (derived matrices of the second specification)"""
    a = np.asarray(a, dtype=float)
    if nd is not None:
        a = np.round(a, nd)
    a = (a + a.T) / 2.0
    return a.tolist()


SHIFTABLE = {"poly0": "c0", "poly1": "c0", "poly2": "c0", "poly3": "c0", "trig": "c", "expbasis": "b", "gausspeak": "c", "lorentz": "c", "sinusoid": "c"}


def shift_y(spec, rng):
    """make the dependent data straddle zero and move the additive constant of the model with it"""
    fam = spec["model"]["family"]
    key = "y" if "y" in spec else "data"
    y = np.array(spec[key], dtype=float)
    s = float(np.round(np.median(y) + rng.uniform(-0.3, 0.3) * (np.std(y) + 0.1), 3))
    m = Model.from_spec(spec["model"])
    d = list(m.defaults)
    i = m.pnames.index(SHIFTABLE[fam])
    d[i] = r6(d[i] - s)
    spec["model"] = dict(spec["model"], defaults=d)
    spec[key] = rl(y - s, 5)
    return spec


def shift_x(spec, rng):
    x = np.array(spec["x"], dtype=float)
    s = float(np.round(np.median(x) + rng.uniform(-0.3, 0.3), 3))
    spec["x"] = rl(x - s, 4)
    return spec


def n_points(rng, fam, nmax):
    """number of data points: non-linear families get >= 2 npar + 2 points so that the fits compared after do_fit are well posed"""
    k = len(Model(fam).pnames)
    if Model(fam).linear:
        return int(rng.integers(k + 2, max(nmax, k + 3) + 1))
    return int(rng.integers(2 * k + 2, 2 * k + 6))


def base_spec(rng, tier, ftype, mixed_y=False, mixed_x=False, family=None, cost="chi2"):
    nmax = 9 if tier == "quick" else 20
    if ftype in ("xy", "indexed"):
        # (peak-shaped families are left to the model-form family: with random support points their fits are too often degenerate)
        fams = ["poly1", "poly2", "trig", "expbasis", "poly1", "exponential"] if not mixed_x else ["poly1", "poly2", "trig"]
        fam = family or str(rng.choice(fams))
        n = n_points(rng, fam, nmax)
        spec = (gen.gen_xy_spec if ftype == "xy" else gen.gen_indexed_spec)(rng, family=fam, n=n, cost=cost)
        if mixed_x and ftype == "xy":
            # data regenerated from the model at the shifted x so that the problem stays a sensible fit
            shift_x(spec, rng)
            m = Model.from_spec(spec["model"])
            yv = m.f(np.array(spec["x"]), gen.perturbed_params(rng, m, 0.1))
            spec["y"] = rl(yv + rng.normal(size=n) * 0.1 * (np.abs(yv).mean() + 0.1), 5)
        if mixed_y and fam in SHIFTABLE:
            shift_y(spec, rng)
        return spec
    if ftype == "hist":
        # two- / one-parameter densities only: the fits must be well posed for the do_fit comparison to mean anything
        return gen.gen_hist_spec(rng, density=str(rng.choice(["normal", "expdens"])), cost=cost, n_bins=int(rng.integers(5, 9)), n_entries=int(rng.integers(60, 160)))
    if ftype == "unbinned":
        return gen.gen_unbinned_spec(rng, n=int(rng.integers(10, 40)))
    raise KeyError(ftype)


def data_of(spec):
    if spec["type"] == "xy":
        return np.array(spec["y"], dtype=float)
    if spec["type"] == "hist":
        return hist_counts(spec["edges"], spec["entries"])
    return np.array(spec["data"], dtype=float)


def src(spec, axis, name, **kw):
    """add_error op in dsl spelling"""
    a = {"err": kw.pop("err"), "relative": kw.pop("relative", False), "reference": kw.pop("reference", "data"), "corr": kw.pop("corr", 0.0), "name": name}
    if spec["type"] == "xy":
        a["axis"] = axis
    return ["add_error", a]


def msrc(spec, axis, name, matrix, matrix_type="cov", err_val=None, relative=False, reference="data"):
    a = {"matrix": matrix, "matrix_type": matrix_type, "err_val": err_val, "relative": relative, "reference": reference, "name": name}
    if spec["type"] == "xy":
        a["axis"] = axis
    return ["add_matrix_error", a]


def base_error(spec, rng):
    d = data_of(spec)
    s = r6((np.std(d) * 0.15 + 0.05 * (np.abs(d).mean() + 0.1)) * rng.uniform(0.7, 1.4) + 0.02)
    return src(spec, "y", "base", err=s)


def simple_cov(sig, rho):
    sig = np.asarray(sig, dtype=float)
    R = np.full((len(sig), len(sig)), float(rho))
    np.fill_diagonal(R, 1.0)
    return np.outer(sig, sig) * R


def rand_cor(rng, n):
    c, _ = gen.cov_to_cor(gen.gen_psd(rng, n, scale=1.0))
    c = np.round(c, 10)
    c = (c + c.T) / 2.0
    np.fill_diagonal(c, 1.0)
    return c


def points_for(rng, defaults, k=3, rel=0.12):
    p = np.array(defaults, dtype=float)
    return [rl(p * (1.0 + rng.uniform(-rel, rel, size=len(p))) + rng.uniform(-0.02, 0.02, size=len(p))) for _ in range(k)]


def pick_min(rng):
    return str(rng.choice(["iminuit", "iminuit", "scipy"]))


# ================================================================== model descriptions (family 7, 8, wrappers)
LIBRARY = {
    # library name -> (aliases, parameter names, defaults, python expr, sympy expr, density)
    "linear_model": (["line", "linear", "linear_model"], ["a", "b"], [1.0, 1.0], "a * x + b", "a*x + b", False),
    "quadratic_model": (["quadratic", "quadratic_model"], ["a", "b", "c"], [1.0, 1.0, 1.0], "a * x**2 + b * x + c", "a*x**2 + b*x + c", False),
    "cubic_model": (["cubic", "cubic_model"], ["a", "b", "c", "d"], [1.0, 1.0, 1.0, 1.0], "a * x**3 + b * x**2 + c * x + d", "a*x**3 + b*x**2 + c*x + d", False),
    "exponential_model": (["exp", "exponential", "exponential_model"], ["A_0", "x_0"], [1.0, 1.0], "A_0 * np.exp(x / x_0)", "A_0*exp(x/x_0)", False),
    "normal_distribution": (
        ["normal", "normal_distribution", "normal_distribution_pdf"],
        ["mu", "sigma"],
        [1.0, 1.0],
        "np.exp(-0.5 * ((x - mu) / sigma) ** 2) / np.sqrt(2.0 * np.pi * sigma**2)",
        "exp(-((x-mu)/sigma)**2/2)/sqrt(2*pi*sigma**2)",
        True,
    ),
}
# parameter names a user of a physics lab course may well choose; several are names of the SymPy namespace
RENAME_POOL = ["E", "I", "N", "S", "Q", "O", "U", "R", "T", "tau", "beta", "gamma", "zeta", "lam", "omega", "a_1", "k2", "Gamma", "phi0", "m", "v0", "pi0", "alpha"]


def mdesc_from_model(m, rename=None):
    table = DENSITIES if m.density else FAMILIES
    py, sym = m.np_expr, table[m.family][1]
    params = list(m.pnames)
    if rename:
        for old, new in rename.items():
            py = re.sub(r"\b%s\b" % re.escape(old), "@@%s@@" % new, py)
            sym = re.sub(r"\b%s\b" % re.escape(old), "@@%s@@" % new, sym)
        py, sym = py.replace("@@", ""), sym.replace("@@", "")
        params = [rename.get(p, p) for p in params]
    return {"name": m.name, "params": params, "defaults": [float(d) for d in m.defaults], "py": py, "sympy": sym, "density": bool(m.density)}


def mdesc_library(lib):
    al, params, defaults, py, sym, dens = LIBRARY[lib]
    return {"name": lib, "params": list(params), "defaults": list(defaults), "py": py, "sympy": sym, "density": dens}


def fnum(v):
    """float literal that is a float for Python, SymPy and YAML 1.1 alike"""
    s = repr(float(v))
    if "e" in s and "." not in s.split("e")[0]:
        s = s.replace("e", ".0e")
    return s


def md_source(md, indexed_x=None, with_defaults=True):
    args = ", ".join(("%s=%s" % (n, fnum(d))) if with_defaults else n for n, d in zip(md["params"], md["defaults"]))
    if indexed_x is not None:
        return "def %s(%s):\n    x = np.array(%r)\n    return %s\n" % (md["name"], args, [float(v) for v in indexed_x], md["py"])
    return "def %s(x, %s):\n    return %s\n" % (md["name"], args, md["py"])


def md_sympy(md, with_name=True, with_defaults=True):
    syms = " ".join(("%s=%s" % (n, fnum(d))) if with_defaults else n for n, d in zip(md["params"], md["defaults"]))
    head = ("%s: " % md["name"]) if with_name else ""
    return "%sx %s -> %s" % (head, syms, md["sympy"])


_cnt = [0]


def exec_source(text):
    _cnt[0] += 1
    fname = "<verif-c14-%d>" % _cnt[0]
    linecache.cache[fname] = (len(text), None, text.splitlines(True), fname)
    from scipy.special import erf

    ns = {"np": np, "erf": erf}
    exec(compile(text, fname, "exec"), ns)
    name = re.match(r"\s*def\s+(\w+)", text).group(1)
    return ns[name]


def make_model_function(mf, ftype):
    """mf: {"form": "default"|"vlib"|"callable"|"library"|"sympy"|"source", ...} -> object to pass as model_function (or None = omit)"""
    form = mf["form"]
    if form == "default":
        return None
    if form == "vlib":
        m = Model.from_spec(mf["spec"])
        return m.callable(indexed_x=mf.get("indexed_x"))
    if form == "callable":
        return exec_source(mf["text"])
    if form in ("library", "sympy"):
        return mf["string"]
    if form == "source":
        from kafe2.fit.representation.model.yaml_drepr import _parse_function

        return _parse_function(mf["text"])
    raise KeyError(form)


# ================================================================== realising a specification
class Env:
    def __init__(self, tmpdir):
        self.tmpdir = tmpdir
        self.n = 0

    def path(self, suffix):
        self.n += 1
        return os.path.join(self.tmpdir, "f%05d%s" % (self.n, suffix))


def make_data(ftype, data, as_="raw"):
    """data as plain lists -> what the fit constructors / wrappers take"""
    from kafe2.fit import HistContainer, IndexedContainer, UnbinnedContainer, XYContainer

    if ftype == "xy":
        x, y = np.array(data["x"], dtype=float), np.array(data["y"], dtype=float)
        if as_ == "container":
            return XYContainer(x, y)
        if as_ == "ndarray":
            return np.array([x, y])
        return [x, y]
    if ftype == "indexed":
        d = np.array(data["data"], dtype=float)
        return IndexedContainer(d) if as_ == "container" else d
    if ftype == "unbinned":
        d = np.array(data["data"], dtype=float)
        return UnbinnedContainer(d) if as_ == "container" else d
    if ftype == "hist":
        kw = {}
        if data.get("n_bins") is not None:
            kw["n_bins"] = data["n_bins"]
        if data.get("bin_range") is not None:
            kw["bin_range"] = tuple(data["bin_range"])
        if data.get("bin_edges") is not None:
            kw["bin_edges"] = list(data["bin_edges"])
        return HistContainer(fill_data=list(data["entries"]), **kw)
    raise KeyError(ftype)


def apply_ops(fit, ftype, ops):
    for op in ops:
        k = op[0]
        if k == "set_parameter_errors":
            fit.parameter_errors = list(op[1])
        elif k == "add_parameter_constraint_positional":
            fit.add_parameter_constraint(*op[1])
        else:
            dsl.apply_live(fit, {"type": ftype}, op)


def realise(sf, env, ctx):
    """specification (plain data) -> dict(fit=..., fitted=bool, result=...)"""
    how = sf["how"]
    if how == "dsl":
        spec = dict(sf["spec"])
        if sf.get("minimizer"):
            spec["minimizer"] = sf["minimizer"]
        data = None
        if sf.get("container_ops"):
            later = sf.get("values_later")
            data = dsl.build_container(dict(spec, **({"x": later["x0"], "y": later["y0"]} if later else {})))
            for s in sf["container_ops"]:
                dsl.apply_container_source(data, spec["type"], s)
            if later:
                # the container first held other numbers: its uncertainties are looked at, then the final values are assigned
                ctx.op("container-values-assigned-later")
                ctx.add_to_set("values_later_mode", later["mode"])
                _ = (data.x_err, data.y_err, data.x_cov_mat, data.y_cov_mat)
                if later["mode"] == "xy-setters":
                    data.x = np.array(spec["x"], dtype=float)
                    data.y = np.array(spec["y"], dtype=float)
                elif later["mode"] == "yx-setters":
                    data.y = np.array(spec["y"], dtype=float)
                    data.x = np.array(spec["x"], dtype=float)
                else:
                    data.data = np.array([spec["x"], spec["y"]], dtype=float)
        fit = dsl.build_fit(spec, data=data)
        if data is not None and spec["type"] in ("xy", "indexed"):
            # the fit works on its own copy of the container: what the caller does with the original afterwards is not the fit's business
            # (a relative uncertainty must keep referring to the values of the copy)
            ctx.op("caller-container-changed-after-fit-was-built")
            if spec["type"] == "xy":
                data.y = 10.0 * np.array(data.y, dtype=float) + 1.0
                data.x = 3.0 * np.array(data.x, dtype=float) + 1.0
            else:
                data.data = 10.0 * np.array(data.data, dtype=float) + 1.0
        for op in sf.get("ops", []):
            dsl.apply_live(fit, spec, op)
        return {"fit": fit, "fitted": False}
    if how == "explicit":
        from kafe2.fit import CustomFit, HistFit, IndexedFit, UnbinnedFit, XYFit
        from kafe2 import Fit

        ftype = sf["ftype"]
        kw = dict(sf.get("fit_kwargs") or {})
        if ftype == "custom":
            fit = CustomFit(exec_source(sf["cost_text"]), **kw)
        else:
            data = make_data(ftype, sf["data"], sf.get("data_as", "raw"))
            for s in sf.get("container_ops", []):
                dsl.apply_container_source(data, ftype, s)
            mfun = make_model_function(sf["model"], ftype)
            cls = {"xy": XYFit, "indexed": IndexedFit, "hist": HistFit, "unbinned": UnbinnedFit}[ftype]
            if sf.get("via_Fit"):
                ctx.op("Fit-call")
                ctx.add_to_set("wrapper", "Fit")
                fit = Fit(data, mfun, **kw) if mfun is not None else Fit(data, **kw)
            else:
                fit = cls(data, mfun, **kw) if mfun is not None else cls(data, **kw)
            if sf.get("container_ops") and ftype in ("xy", "indexed") and hasattr(data, "add_error"):
                # (as in the dsl path: the caller changes the container after the fit was built from it)
                ctx.op("caller-container-changed-after-fit-was-built")
                if ftype == "xy":
                    data.y = 10.0 * np.array(data.y, dtype=float) + 1.0
                    data.x = 3.0 * np.array(data.x, dtype=float) + 1.0
                else:
                    data.data = 10.0 * np.array(data.data, dtype=float) + 1.0
        apply_ops(fit, ftype, sf.get("ops", []))
        out = {"fit": fit, "fitted": False}
        if sf.get("do_fit") is not None:
            ctx.op("do_fit")
            out["result"] = fit.do_fit(**sf["do_fit"])
            out["fitted"] = True
        return out
    if how == "wrapper":
        import kafe2
        from kafe2.fit.util import wrapper as W

        ctx.op("wrapper-call")
        ctx.add_to_set("wrapper", sf["func"])
        kw = {}
        for k, v in sf["kwargs"].items():
            kw[k] = np.array(v, dtype=float) if (isinstance(v, list) and k in sf.get("array_kwargs", [])) else v
        for k in sf.get("tuple_kwargs", []):
            v = sf["kwargs"][k]
            kw[k] = tuple(v) if not isinstance(v[0], list) else [tuple(t) for t in v]
        if sf["func"] == "custom_fit":
            res = W.custom_fit(exec_source(sf["cost_text"]), **kw)
            return {"fit": res["fit"], "fitted": True, "result": res}
        ftype = sf["ftype"]
        mfun = make_model_function(sf["model"], ftype)
        d = sf["data"]
        if sf["func"] in ("xy_fit", "k2Fit"):
            pos = [np.array(d["x"], dtype=float), np.array(d["y"], dtype=float)]
            if sf["func"] == "xy_fit":
                res = W.xy_fit(mfun, *pos, **kw) if mfun is not None else W.xy_fit(x_data=pos[0], y_data=pos[1], **kw)
                return {"fit": res["fit"], "fitted": True, "result": res}
            n0 = len(W._fit_history)
            tup = W.k2Fit(mfun, *pos, **kw)
            fit = W._fit_history[-1]["fit"] if len(W._fit_history) > n0 else None
            return {"fit": fit, "fitted": True, "k2": tup}
        if sf["func"] == "indexed_fit":
            res = W.indexed_fit(mfun, np.array(d["data"], dtype=float), **kw)
        elif sf["func"] == "unbinned_fit":
            res = W.unbinned_fit(mfun, np.array(d["data"], dtype=float), **kw) if mfun is not None else W.unbinned_fit(data=np.array(d["data"], dtype=float), **kw)
        elif sf["func"] == "hist_fit":
            hk = {k: d[k] for k in ("n_bins", "bin_range", "bin_edges") if d.get(k) is not None}
            if "bin_range" in hk:
                hk["bin_range"] = tuple(hk["bin_range"])
            res = W.hist_fit(mfun, np.array(d["entries"], dtype=float), **hk, **kw) if mfun is not None else W.hist_fit(data=np.array(d["entries"], dtype=float), **hk, **kw)
        else:
            raise KeyError(sf["func"])
        return {"fit": res["fit"], "fitted": True, "result": res}
    if how == "yaml":
        from kafe2.fit import HistFit, IndexedFit, UnbinnedFit, XYFit
        from kafe2.fit._base import FitBase

        ctx.op("yaml-load")
        path = env.path(".yml")
        with open(path, "w") as f:
            f.write(sf["text"])
        cls = {"XYFit": XYFit, "IndexedFit": IndexedFit, "HistFit": HistFit, "UnbinnedFit": UnbinnedFit, "generic": FitBase}[sf.get("loader", "generic")]
        ctx.add_to_set("yaml_loader", sf.get("loader", "generic"))
        fit = cls.from_file(path)
        os.remove(path)
        return {"fit": fit, "fitted": False}
    if how == "multi":
        from kafe2.fit import MultiFit

        fits = [realise(m, env, ctx)["fit"] for m in sf["members"]]
        multi = MultiFit(fits, minimizer=sf.get("minimizer"))
        for op in sf.get("ops", []):
            a = op[1]
            err = np.array(a["err"], dtype=float) if isinstance(a["err"], list) else a["err"]
            multi.add_error(err, fits=a["fits"], axis=a.get("axis"), name=a["name"], correlation=a.get("corr", 0.0), relative=a.get("relative", False), reference=a.get("reference", "data"))
        return {"fit": multi, "fitted": False}
    raise KeyError(how)


# ================================================================== comparisons
def fit_model_values(fit):
    from kafe2.fit import MultiFit, XYFit

    if isinstance(fit, MultiFit):
        return None
    try:
        if isinstance(fit, XYFit):
            return np.array(fit.y_model, dtype=float)
        mv = fit.model
        return None if mv is None else np.array(mv, dtype=float)
    except AttributeError:
        return None


def fit_cov(fit):
    try:
        V = fit.total_cov_mat
    except (AttributeError, NotImplementedError):
        return None
    return None if V is None else np.array(V, dtype=float)


def cost_scale(c, V):
    s = abs(c) + 1.0
    if V is not None and V.ndim == 2 and V.size:
        ld = np.linalg.slogdet(V)[1]
        if np.isfinite(ld):
            s += 2.0 * abs(ld)
    return s


def n_wit(ctx):
    return sum(ctx._wit_per_key.values())


def compare_at_points(ctx, case, fa, fb, tag, key):
    """model, total_cov_mat, cost at the common parameter points. Returns number of cost comparisons made."""
    done = 0
    for p in case["points"]:
        fa.set_all_parameter_values(list(p))
        fb.set_all_parameter_values(list(p))
        det = {"point": p, "pair": tag}
        ma, mb = fit_model_values(fa), fit_model_values(fb)
        if ma is not None and mb is not None:
            if not (np.all(np.isfinite(ma))):
                ctx.discard("model-not-finite")
                continue
            if not ctx.close("model", mb, ma, tol=Tol.LINALG, scale=np.abs(ma).max() + 1e-300, detail=det, key=lambda: key("model")):
                return done
        Va, Vb = fit_cov(fa), fit_cov(fb)
        if Va is not None and Vb is not None:
            if not ctx.close("total_cov_mat", Vb, Va, tol=Tol.LINALG, scale=np.abs(Va).max() + 1e-300, detail=det, key=lambda: key("total_cov_mat")):
                return done
        elif (Va is None) != (Vb is None):
            ctx.check("total_cov_mat", False, dict(det, got=Vb, expected=Va, note="only one side has a total covariance"), key=lambda: key("total_cov_mat"))
            return done
        ca, cb = float(fa.cost_function_value), float(fb.cost_function_value)
        if not np.isfinite(ca) and not np.isfinite(cb):
            ctx.discard("cost-not-finite-on-both-sides")
            continue
        ok = ctx.close("cost_function_value", cb, ca, tol=Tol.LINALG, scale=cost_scale(ca, Va), detail=det, key=lambda: key("cost_function_value"))
        done += 1
        if not ok:
            return done
    return done


def opt_tol(minimizer):
    return (1e-2, 1e-3) if minimizer in (None, "iminuit") else (5e-2, 5e-3)


def compare_fit_results(ctx, case, fa, fb, tag, key, minimizer):
    """do_fit() results of two fitted fits (OPTIM)."""
    ptol, ctol = opt_tol(minimizer)
    det = {"pair": tag, "minimizer": minimizer or "default(iminuit)"}
    ctx.eq("fit.ndf", fb.ndf, fa.ndf, detail=det, key=lambda: key("fit.ndf"))
    pa, pb = np.array(fa.parameter_values, dtype=float), np.array(fb.parameter_values, dtype=float)
    ea = fa.parameter_errors
    eb = fb.parameter_errors
    if ea is None or eb is None:
        ctx.check("fit.parameter_errors", ea is None and eb is None, dict(det, got=eb, expected=ea), key=lambda: key("fit.parameter_errors"))
        sig = np.zeros_like(pa)
    else:
        ea, eb = np.array(ea, dtype=float), np.array(eb, dtype=float)
        sig = np.where(np.isfinite(ea) & (ea > 0), ea, 0.0)
    if pa.shape != pb.shape:
        ctx.check("fit.parameter_values", False, dict(det, got=pb, expected=pa), key=lambda: key("fit.parameter_values"))
        return False
    # a (nearly) degenerate minimum has no position to within a fraction of the reported sigma: there only the cost is compared
    cond = 1.0
    try:
        cor = np.array(fa.parameter_cor_mat, dtype=float)
        free = [i for i in range(len(pa)) if sig[i] > 0]
        if len(free) > 1:
            cond = float(np.linalg.cond(cor[np.ix_(free, free)]))
    except Exception:
        cond = float("inf")
    # a free parameter with no (finite, positive) uncertainty: the Hessian at the reported point is not positive definite
    try:
        _fixed = set(fa._fitter.fixed_parameters)
    except Exception:
        _fixed = set()
    _names = list(fa.parameter_names)
    if any(sig[i] <= 0 for i in range(len(pa)) if _names[i] not in _fixed):
        cond = float("inf")
    if not np.isfinite(cond) or cond > 1e4:
        ctx.discard("do_fit-degenerate-minimum-values-not-compared")
        ca, cb = float(fa.cost_function_value), float(fb.cost_function_value)
        if not (np.isfinite(ca) and np.isfinite(cb)):
            ctx.discard("do_fit-ended-on-non-finite-cost")
            return ca == cb or (np.isnan(ca) and np.isnan(cb))
        return ctx.check("fit.cost", abs(ca - cb) <= 10 * ctol, lambda: dict(det, got=cb, expected=ca, tolerance=10 * ctol, cond_cor=cond), key=lambda: key("fit.cost"))
    dev = np.abs(pa - pb)
    _ca, _cb = float(fa.cost_function_value), float(fb.cost_function_value)
    if np.isfinite(_ca) and np.isfinite(_cb) and abs(_ca - _cb) <= ctol and np.any(dev > np.where(sig > 0, sig, np.inf)):
        # sigma is DEFINED by a cost increase of 1: two end points more than one reported sigma apart with the same cost show that the
        # minimum has a flat direction and the reported sigma is no yardstick (same rule as C09; thorough tier: a Gaussian peak fitted
        # into a parabola, A = 1643 / 1470 with sigma_A = 1.7 and costs equal to 1e-4)
        ctx.discard("do_fit-degenerate-minimum-values-not-compared")
        return True
    ok = ctx.check("fit.parameter_values", bool(np.all(dev <= ptol * sig + 1e-9 * (1.0 + np.abs(pa)))), lambda: dict(det, got=pb, expected=pa, sigma=sig, deviation_in_sigma=dev / np.where(sig > 0, sig, 1.0), tolerance_sigma=ptol), key=lambda: key("fit.parameter_values"))
    ca, cb = float(fa.cost_function_value), float(fb.cost_function_value)
    ok = ctx.check("fit.cost", abs(ca - cb) <= ctol, lambda: dict(det, got=cb, expected=ca, tolerance=ctol), key=lambda: key("fit.cost")) and ok
    if ea is not None and eb is not None and ok and case.get("compare_errors", True):
        # HESSE / numdifftools second derivatives amplify last-bit differences of the cost in proportion to the condition number of the
        # parameter correlation matrix (C05: observed 2.4e-2 at cond 6e6): etol = max(2e-2, 2e-8 * cond)
        etol = 2e-2
        try:
            cor = np.array(fa.parameter_cor_mat, dtype=float)
            free = [i for i in range(len(ea)) if ea[i] > 0 and np.isfinite(ea[i])]
            cond = float(np.linalg.cond(cor[np.ix_(free, free)])) if len(free) > 1 else 1.0
            etol = max(2e-2, 2e-8 * cond) if np.isfinite(cond) else 1.0
            if minimizer in (None, "iminuit") and (getattr(fa, "has_x_errors", False) or getattr(fa, "has_model_errors", False)):
                # covariance depends on the parameters: the cost is not parabolic, and Minuit2's HESSE with strategy 1 (kafe2's setting)
                # iterates its steps only until the second derivatives change by < 5 % (same yardstick as C15; thorough tier: the SAME
                # object fitted twice reported uncertainties 3.0 % apart at an unchanged optimum, cond(cor) = 1350)
                etol = max(etol, 5e-2)
        except Exception:
            cond = None
        ctx.note("errors-compared-at-2e-2" if etol <= 2e-2 else "errors-compared-looser-ill-conditioned")
        both_nan = np.isnan(ea) & np.isnan(eb)
        ok = ctx.check("fit.parameter_errors", bool(np.all(both_nan | (np.abs(ea - eb) <= etol * np.maximum(np.abs(ea), np.abs(eb)) + 1e-12))), lambda: dict(det, got=eb, expected=ea, tolerance_rel=etol, cond_cor=cond), key=lambda: key("fit.parameter_errors")) and ok
    return ok


def compare_asymmetric(ctx, ra, rb, tag, key):
    aa, ab = ra.get("asymmetric_parameter_errors"), rb.get("asymmetric_parameter_errors")
    if aa is None or ab is None:
        ctx.check("fit.asymmetric_parameter_errors", aa is None and ab is None, {"pair": tag, "got": ab, "expected": aa}, key=lambda: key("fit.asymmetric_parameter_errors"))
        return
    if isinstance(aa, dict) and isinstance(ab, dict):
        if list(aa) != list(ab):
            ctx.check("fit.asymmetric_parameter_errors", False, {"pair": tag, "got": list(ab), "expected": list(aa)}, key=lambda: key("fit.asymmetric_parameter_errors"))
            return
        aa, ab = list(aa.values()), list(ab.values())
    aa, ab = np.array(aa, dtype=float), np.array(ab, dtype=float)
    fin = np.isfinite(aa) & np.isfinite(ab)
    ok = aa.shape == ab.shape and bool(np.all(np.isfinite(aa) == np.isfinite(ab))) and bool(np.all(np.abs(aa - ab)[fin] <= 2e-2 * np.maximum(np.abs(aa), np.abs(ab))[fin] + 1e-12))
    ctx.check("fit.asymmetric_parameter_errors", ok, {"pair": tag, "got": ab, "expected": aa, "tolerance_rel": 2e-2}, key=lambda: key("fit.asymmetric_parameter_errors"))


def fit_both(ctx, case, fa, fb, tag, key, minimizer, start=None):
    """same start on both sides, do_fit on both, compare"""
    if start is not None:
        fa.set_all_parameter_values(list(start))
        fb.set_all_parameter_values(list(start))
    ctx.op("do_fit", 2)
    excs = []
    for f in (fa, fb):
        try:
            with time_limit(20.0):
                f.do_fit()
            excs.append(None)
        except Exception as e:
            excs.append((type(e).__name__, fmt_exc()))
    if excs[0] is not None or excs[1] is not None:
        # an exception is a result as well: both specifications must fail alike (whether failing is right is C06 / C19 business)
        if excs[0] is not None and excs[1] is not None and excs[0][0] == excs[1][0]:
            ctx.discard("do_fit-raises-%s-on-both-sides" % excs[0][0])
            return True
        ctx.violation(key("do_fit.no-exception"), "do_fit.no-exception", {"pair": tag, "first": excs[0], "second": excs[1]})
        return False
    return compare_fit_results(ctx, case, fa, fb, tag, key, minimizer)


def error_object(fit, name):
    d = fit.get_matching_errors({"name": name})
    v = d.get(name)
    if v is None:
        return None
    return v["err"] if isinstance(v, dict) else v


def compare_sources(ctx, case, fa, fb, tag, key, with_rel):
    """the declared source itself: cov_mat / error (and, where the reference has no zeros, cov_mat_rel / error_rel)"""
    ea, eb = error_object(fa, "src"), error_object(fb, "src")
    if ea is None or eb is None:
        return
    det = {"pair": tag}
    Ca = np.array(ea.cov_mat, dtype=float)
    if not ctx.close("source.cov_mat", np.array(eb.cov_mat, dtype=float), Ca, tol=Tol.LINALG, scale=np.abs(Ca).max() + 1e-300, detail=det, key=lambda: key("source.cov_mat")):
        return
    xa = np.array(ea.error, dtype=float)
    ctx.close("source.error", np.array(eb.error, dtype=float), xa, tol=Tol.LINALG, scale=np.abs(xa).max() + 1e-300, detail=det, key=lambda: key("source.error"))
    if with_rel:
        Ra = np.array(ea.cov_mat_rel, dtype=float)
        ctx.close("source.cov_mat_rel", np.array(eb.cov_mat_rel, dtype=float), Ra, tol=Tol.LINALG, scale=np.abs(Ra).max() + 1e-300, detail=det, key=lambda: key("source.cov_mat_rel"))
        ra = np.array(ea.error_rel, dtype=float)
        ctx.close("source.error_rel", np.array(eb.error_rel, dtype=float), ra, tol=Tol.LINALG, scale=np.abs(ra).max() + 1e-300, detail=det, key=lambda: key("source.error_rel"))


# ================================================================== generators: uncertainty-source families
SUBS = ["xy-y", "xy-x", "indexed", "hist"]


def sub_spec(rng, tier, sub, mixed):
    """(spec, axis, reference values of the axis the source goes to)"""
    if sub == "xy-y":
        spec = base_spec(rng, tier, "xy", mixed_y=mixed)
        return spec, "y", np.array(spec["y"])
    if sub == "xy-x":
        spec = base_spec(rng, tier, "xy", mixed_x=mixed)
        return spec, "x", np.array(spec["x"])
    if sub == "indexed":
        spec = base_spec(rng, tier, "indexed", mixed_y=mixed)
        return spec, None, np.array(spec["data"])
    spec = base_spec(rng, tier, "hist", cost=str(rng.choice(["chi2", "gauss_approximation"])))
    return spec, None, data_of(spec)


def pair_case(family, variant, sub, spec, opsA, opsB, rng, **extra):
    m = Model.from_spec(spec["model"])
    minimizer = extra.pop("minimizer", None) or pick_min(rng)
    case = {
        "property": "C14",
        "family": family,
        "variant": variant,
        "sub": sub,
        "minimizer": minimizer,
        "A": {"how": "dsl", "spec": spec, "ops": opsA, "minimizer": minimizer},
        "B": {"how": "dsl", "spec": spec, "ops": opsB, "minimizer": minimizer},
        "points": [gen.perturbed_params(rng, m, 0.1) for _ in range(3)],
        "start": [float(v) for v in m.defaults],
        "do_fit": True,
        "compare_sources": True,
    }
    case.update(extra)
    if family == "rel-abs" and spec["type"] == "xy" and all(o[1].get("reference", "data") == "data" for o in opsA) and rng.random() < 0.35:
        # the relative specification arrives in a container that held other numbers first (values assigned later through the setters):
        # a relative uncertainty is relative to the values the container holds when the fit is made
        x, y = np.array(spec["x"], dtype=float), np.array(spec["y"], dtype=float)
        x0 = x * rng.uniform(1.5, 3.0) + rng.uniform(0.5, 1.5)
        y0 = y * rng.uniform(1.5, 3.0) + np.sign(y + (y == 0)) * rng.uniform(0.5, 1.5)
        case["A"] = {
            "how": "dsl", "spec": spec, "ops": [], "minimizer": minimizer,
            "container_ops": [dict(o[1], kind="simple" if o[0] == "add_error" else "matrix") for o in opsA],
            "values_later": {"x0": rl(x0), "y0": rl(y0), "mode": str(rng.choice(["xy-setters", "yx-setters", "data-setter"]))},
        }
    return case


def rel_values(rng, n, axis, shape=None):
    base = (0.03 if axis == "x" else 0.08) * rng.uniform(0.5, 2.0)
    shape = shape or str(rng.choice(["scalar", "vec", "veczero"]))
    if shape == "scalar":
        return r6(base), np.full(n, r6(base))
    v = np.round(base * rng.uniform(0.5, 1.5, size=n), 6)
    if shape == "veczero" and n > 2:
        v[int(rng.integers(0, n))] = 0.0
    return rl(v), v


def rho_value(rng, kind=None):
    kind = kind or str(rng.choice(["p", "p", "one"]))
    return 1.0 if kind == "one" else float(np.round(rng.uniform(0.05, 0.95), 3))


def gen_rel_abs(rng, tier, variant, sub):
    only = sub.endswith("-only")  # the model-referenced source is the first and only source of the fit
    mixed = bool(rng.random() < 0.7) and not only
    spec, axis, ref = sub_spec(rng, tier, sub[:-5] if only else sub, mixed)
    n = len(ref)
    base = [] if only else [base_error(spec, rng)]
    feats = {"mixed_sign_reference": bool(np.any(ref < 0) and np.any(ref > 0)), "zero_in_reference": bool(np.any(ref == 0))}
    with_rel = not np.any(np.abs(ref) < 1e-9)
    if variant == "simple-rho0":
        err, rv = rel_values(rng, n, axis)
        A = base + [src(spec, axis, "src", err=err, relative=True)]
        B = base + [src(spec, axis, "src", err=[float(v) for v in rv * np.abs(ref)])]
        return pair_case("rel-abs", variant, sub, spec, A, B, rng, features=feats, with_rel=with_rel)
    if variant == "simple-rho":
        err, rv = rel_values(rng, n, axis)
        rho = rho_value(rng)
        A = base + [src(spec, axis, "src", err=err, relative=True, corr=rho)]
        B = base + [msrc(spec, axis, "src", simple_cov(rv * ref, rho).tolist())]
        return pair_case("rel-abs", variant, sub, spec, A, B, rng, features=dict(feats, rho=rho), with_rel=False)
    if variant == "matrix-cov":
        crel = np.array(gen.gen_psd(rng, n, scale=0.06 * rng.uniform(0.5, 2.0)))
        A = base + [msrc(spec, axis, "src", crel.tolist(), relative=True)]
        B = base + [msrc(spec, axis, "src", (crel * np.outer(ref, ref)).tolist())]
        return pair_case("rel-abs", variant, sub, spec, A, B, rng, features=feats, with_rel=with_rel)
    if variant == "matrix-cor":
        cor = rand_cor(rng, n)
        err, rv = rel_values(rng, n, axis, shape=str(rng.choice(["scalar", "vec"])))
        A = base + [msrc(spec, axis, "src", cor.tolist(), "cor", err_val=err, relative=True)]
        B = base + [msrc(spec, axis, "src", (cor * np.outer(rv * ref, rv * ref)).tolist())]
        return pair_case("rel-abs", variant, sub, spec, A, B, rng, features=feats, with_rel=with_rel)
    if variant == "model-ref-point":
        # relative to the model: at each parameter point the equivalent absolute source has sigma_i = rel_i * model_i(p)
        m = Model.from_spec(spec["model"])
        err, rv = rel_values(rng, n, axis, shape=str(rng.choice(["scalar", "vec"])) if only else None)
        rho = float(rng.choice([0.0, 0.0, rho_value(rng, "p")]))
        A = base + [src(spec, axis, "src", err=err, relative=True, reference="model", corr=rho)]
        pts = [gen.perturbed_params(rng, m, 0.1) for _ in range(3)]
        Bs = []
        xs = np.array(spec["x"], dtype=float)
        for p in pts:
            mv = m.f(xs, p)
            Bs.append(base + [msrc(spec, axis, "src", simple_cov(rv * mv, rho).tolist(), reference="data" if only else str(rng.choice(["data", "model"])))])
        case = pair_case("rel-abs", variant, sub, spec, A, Bs[0], rng, features=dict(feats, rho=rho), with_rel=False)
        case["points"] = pts
        case["B_points"] = [{"how": "dsl", "spec": spec, "ops": b, "minimizer": case["minimizer"]} for b in Bs]
        case["do_fit"] = False
        case["compare_sources"] = False
        return case
    raise KeyError(variant)


def abs_scale(spec, axis, ref):
    if axis == "x":
        return 0.1
    return 0.1 * float(np.mean(np.abs(ref)) + 0.3)


def gen_cor_cov(rng, tier, variant, sub):
    spec, axis, ref = sub_spec(rng, tier, sub, bool(rng.random() < 0.5))
    n = len(ref)
    base = [base_error(spec, rng)]
    cor = rand_cor(rng, n)
    relative = variant == "rel"
    reference = "model" if variant == "model-ref" else "data"
    scale = (0.03 if axis == "x" else 0.08) if relative else abs_scale(spec, axis, ref)
    if variant == "scalar-errval":
        ev = r6(scale * rng.uniform(0.5, 2.0))
        evv = np.full(n, ev)
    else:
        evv = np.round(scale * rng.uniform(0.5, 1.5, size=n), 6)
        ev = rl(evv)
    cov = cor * np.outer(evv, evv)
    feats = {"relative": relative, "reference": reference}
    if variant == "container":
        s = {"kind": "matrix", "name": "src", "matrix": cor.tolist(), "matrix_type": "cor", "err_val": ev, "relative": False}
        s2 = {"kind": "matrix", "name": "src", "matrix": cov.tolist(), "matrix_type": "cov", "err_val": None, "relative": False}
        if spec["type"] == "xy":
            s["axis"] = s2["axis"] = axis
        case = pair_case("cor-cov", variant, sub, spec, base, base, rng, features=feats, with_rel=False)
        case["A"]["container_ops"] = [s]
        case["B"]["container_ops"] = [s2]
        return case
    A = base + [msrc(spec, axis, "src", cor.tolist(), "cor", err_val=ev, relative=relative, reference=reference)]
    B = base + [msrc(spec, axis, "src", cov.tolist(), "cov", relative=relative, reference=reference)]
    return pair_case("cor-cov", variant, sub, spec, A, B, rng, features=feats, with_rel=bool(reference == "data" and not np.any(np.abs(ref) < 1e-9)))


def gen_simple_matrix(rng, tier, variant, sub):
    spec, axis, ref = sub_spec(rng, tier, sub, bool(rng.random() < 0.5))
    n = len(ref)
    base = [base_error(spec, rng)]
    relative = variant == "rel"
    reference = "model" if variant == "model-ref" else "data"
    rho = 1.0 if variant == "rho1" else float(rng.choice([rho_value(rng, "p"), rho_value(rng, "p"), 0.0, 1.0]))
    scale = (0.03 if axis == "x" else 0.08) if relative else abs_scale(spec, axis, ref)
    if rng.random() < 0.35:
        ev = r6(scale * rng.uniform(0.5, 2.0))
        evv = np.full(n, ev)
    else:
        evv = np.round(scale * rng.uniform(0.5, 1.5, size=n), 6)
        if rng.random() < 0.2 and n > 2:
            evv[int(rng.integers(0, n))] = 0.0
        ev = rl(evv)
    A = base + [src(spec, axis, "src", err=ev, relative=relative, reference=reference, corr=rho)]
    B = base + [msrc(spec, axis, "src", simple_cov(evv, rho).tolist(), "cov", relative=relative, reference=reference)]
    return pair_case("simple-matrix", variant, sub, spec, A, B, rng, features={"rho": rho, "relative": relative, "reference": reference, "mixed_sign_reference": bool(np.any(ref < 0) and np.any(ref > 0))},
                     # SimpleGaussianError derives the relative form of an absolute source from |ref|, MatrixGaussianError from ref: with correlation and a
                     # mixed-sign reference the two *relative views* differ although cov_mat (what enters the cost) agrees; not part of the statement
                     with_rel=bool(reference == "data" and not np.any(np.abs(ref) < 1e-9) and (rho == 0.0 or not (np.any(ref < 0) and np.any(ref > 0)))))


def gen_scalar_vector(rng, tier, variant, sub):
    spec, axis, ref = sub_spec(rng, tier, sub, bool(rng.random() < 0.5))
    n = len(ref)
    base = [base_error(spec, rng)]
    # (shared relative sources of a multi-fit need identical reference data in all members: absolute only there)
    relative = variant == "rel" or (variant == "container" and rng.random() < 0.4)
    reference = "model" if variant == "model-ref" else "data"
    rho = float(rng.choice([0.0, 0.0, rho_value(rng)]))
    scale = (0.03 if axis == "x" else 0.08) if relative else abs_scale(spec, axis, ref)
    s = r6(scale * rng.uniform(0.5, 2.0))
    feats = {"rho": rho, "relative": bool(relative), "reference": reference, "n": n}
    if variant == "cor-errval":
        cor = rand_cor(rng, n)
        A = base + [msrc(spec, axis, "src", cor.tolist(), "cor", err_val=s, relative=relative)]
        B = base + [msrc(spec, axis, "src", cor.tolist(), "cor", err_val=[s] * n, relative=relative)]
        return pair_case("scalar-vector", variant, sub, spec, A, B, rng, features=feats, with_rel=False)
    if variant == "container":
        ca = {"kind": "simple", "name": "src", "err": s, "corr": rho, "relative": bool(relative)}
        cb = dict(ca, err=[s] * n)
        if spec["type"] == "xy":
            ca["axis"] = cb["axis"] = axis
        case = pair_case("scalar-vector", variant, sub, spec, base, base, rng, features=feats, with_rel=False)
        case["A"]["container_ops"] = [ca]
        case["B"]["container_ops"] = [cb]
        return case
    if variant == "multifit":
        # two members of equal size sharing one source added through MultiFit.add_error
        spec2 = copy.deepcopy(spec)
        key = "y" if "y" in spec2 else "data"
        spec2[key] = rl(np.array(spec2[key]) + rng.normal(size=n) * 0.05 * (np.abs(ref).mean() + 0.1), 5)
        minimizer = pick_min(rng)
        mem = [{"how": "dsl", "spec": spec, "ops": base, "minimizer": minimizer}, {"how": "dsl", "spec": spec2, "ops": [base_error(spec2, rng)], "minimizer": minimizer}]
        fits = "all" if rng.random() < 0.5 else [0, 1]
        ax = axis if spec["type"] == "xy" else None
        opA = ["add_error", {"err": s, "fits": fits, "axis": ax, "name": "src", "corr": rho, "relative": bool(relative), "reference": "data"}]
        opB = ["add_error", dict(opA[1], err=[s] * n)]
        m = Model.from_spec(spec["model"])
        return {
            "property": "C14", "family": "scalar-vector", "variant": variant, "sub": sub, "minimizer": minimizer,
            "A": {"how": "multi", "members": mem, "ops": [opA], "minimizer": minimizer},
            "B": {"how": "multi", "members": mem, "ops": [opB], "minimizer": minimizer},
            "points": [gen.perturbed_params(rng, m, 0.1) for _ in range(3)], "start": [float(v) for v in m.defaults],
            "do_fit": True, "compare_sources": False, "features": feats,
        }
    A = base + [src(spec, axis, "src", err=s, relative=relative, reference=reference, corr=rho)]
    B = base + [src(spec, axis, "src", err=[s] * n, relative=relative, reference=reference, corr=rho)]
    return pair_case("scalar-vector", variant, sub, spec, A, B, rng, features=feats, with_rel=bool(reference == "data" and not np.any(np.abs(ref) < 1e-9)))


# ================================================================== generators: constraints
def gen_constraint_case(rng, tier, variant, sub):
    ftype = "xy" if sub == "xy" else "indexed"
    mixed = bool(rng.random() < 0.7)
    fam = str(rng.choice(["poly1", "poly2", "trig", "exponential", "expbasis"]))
    spec = base_spec(rng, tier, ftype, mixed_y=mixed, family=fam)
    m = Model.from_spec(spec["model"])
    names, defaults = list(m.pnames), np.array(m.defaults, dtype=float)
    base = [base_error(spec, rng)]
    if variant == "simple-rel-abs":
        i = int(rng.integers(0, len(names)))
        v = r6(defaults[i] * rng.uniform(0.8, 1.2) + rng.normal() * 0.05)
        if rng.random() < 0.3:
            v = -v  # constraint values of either sign whatever the model prefers
        if abs(v) < 1e-3:
            v = -0.1
        rel = r6(rng.uniform(0.05, 0.4))
        cA = ["add_parameter_constraint", {"name": names[i], "value": v, "uncertainty": rel, "relative": True}]
        cB = ["add_parameter_constraint", {"name": names[i], "value": v, "uncertainty": float(rel * abs(v)), "relative": False}]
        feats = {"negative_value": bool(v < 0)}
    else:
        k = int(rng.integers(2, min(3, len(names)) + 1))
        idx = [int(i) for i in rng.choice(len(names), size=k, replace=False)]
        vals = np.array([r6(defaults[i] * rng.uniform(0.8, 1.2) + rng.normal() * 0.05 + 0.01) for i in idx])
        flip = rng.random(size=k) < 0.3
        vals = np.where(flip, -vals, vals)
        vals = np.where(np.abs(vals) < 1e-3, -0.1, vals)
        if rng.random() < 0.7:
            # values of both signs within one constraint: the sign pattern is what the relative forms have to carry over
            vals[0], vals[1] = -abs(vals[0]), abs(vals[1])
        cor = rand_cor(rng, k)
        a = {"names": [names[i] for i in idx], "values": rl(vals)}
        feats = {"negative_value": bool(np.any(vals < 0)), "mixed_sign_values": bool(np.any(vals < 0) and np.any(vals > 0))}
        if variant == "matrix-covrel-covabs":
            crel = np.array(gen.gen_psd(rng, k, scale=0.15, kind="dense"))
            cA = ["add_matrix_parameter_constraint", dict(a, matrix=rmat(crel), matrix_type="cov", uncertainties=None, relative=True)]
            cB = ["add_matrix_parameter_constraint", dict(a, matrix=rmat(np.array(rmat(crel)) * np.outer(vals, vals), None), matrix_type="cov", uncertainties=None, relative=False)]
        elif variant == "matrix-cor-cov":
            unc = np.round(0.15 * (np.abs(vals) + 0.05) * rng.uniform(0.5, 1.5, size=k), 6)
            cA = ["add_matrix_parameter_constraint", dict(a, matrix=cor.tolist(), matrix_type="cor", uncertainties=rl(unc), relative=False)]
            cB = ["add_matrix_parameter_constraint", dict(a, matrix=rmat(cor * np.outer(unc, unc), None), matrix_type="cov", uncertainties=None, relative=False)]
        elif variant == "matrix-correl-covrel":
            unc = np.round(rng.uniform(0.05, 0.3, size=k), 6)
            cA = ["add_matrix_parameter_constraint", dict(a, matrix=cor.tolist(), matrix_type="cor", uncertainties=rl(unc), relative=True)]
            cB = ["add_matrix_parameter_constraint", dict(a, matrix=rmat(cor * np.outer(unc, unc), None), matrix_type="cov", uncertainties=None, relative=True)]
        elif variant == "matrix-correl-covabs":
            unc = np.round(rng.uniform(0.05, 0.3, size=k), 6)
            cA = ["add_matrix_parameter_constraint", dict(a, matrix=cor.tolist(), matrix_type="cor", uncertainties=rl(unc), relative=True)]
            cB = ["add_matrix_parameter_constraint", dict(a, matrix=rmat(cor * np.outer(unc * vals, unc * vals), None), matrix_type="cov", uncertainties=None, relative=False)]
        else:
            raise KeyError(variant)
    case = pair_case("constraint", variant, sub, spec, base + [cA], base + [cB], rng, features=feats, with_rel=False)
    case["compare_sources"] = False
    case["constraints"] = [cA, cB]
    return case


def make_constraint(op, names):
    from kafe2.core.constraint import GaussianMatrixParameterConstraint, GaussianSimpleParameterConstraint

    a = op[1]
    if op[0] == "add_parameter_constraint":
        return GaussianSimpleParameterConstraint(index=names.index(a["name"]), value=a["value"], uncertainty=a["uncertainty"], relative=a["relative"])
    return GaussianMatrixParameterConstraint(indices=[names.index(n) for n in a["names"]], values=a["values"], matrix=a["matrix"], matrix_type=a["matrix_type"], uncertainties=a.get("uncertainties"), relative=a["relative"])


def compare_constraints(ctx, case, key):
    names = list(Model.from_spec(case["A"]["spec"]["model"]).pnames)
    ca, cb = make_constraint(case["constraints"][0], names), make_constraint(case["constraints"][1], names)
    for p in case["points"]:
        va, vb = float(ca.cost(np.array(p))), float(cb.cost(np.array(p)))
        if not ctx.close("constraint.cost", vb, va, tol=Tol.LINALG, scale=abs(va) + 1.0, detail={"point": p}, key=lambda: key("constraint.cost")):
            return False
    ctx.eq("constraint.extra_ndf", cb.extra_ndf, ca.extra_ndf, key=lambda: key("constraint.extra_ndf"))
    if case["constraints"][0][0] == "add_parameter_constraint":
        # the sign of an uncertainty carries no meaning (it only enters squared): compared in magnitude
        ua = abs(float(ca.uncertainty))
        ctx.close("constraint.uncertainty", abs(float(cb.uncertainty)), ua, tol=Tol.LINALG, scale=ua, key=lambda: key("constraint.uncertainty"))
        ra = abs(float(ca.uncertainty_rel))
        ctx.close("constraint.uncertainty_rel", abs(float(cb.uncertainty_rel)), ra, tol=Tol.LINALG, scale=ra, key=lambda: key("constraint.uncertainty_rel"))
        return True
    Ca = np.array(ca.cov_mat, dtype=float)
    ok = ctx.close("constraint.cov_mat", np.array(cb.cov_mat, dtype=float), Ca, tol=Tol.LINALG, scale=np.abs(Ca).max(), key=lambda: key("constraint.cov_mat"))
    Ra = np.array(ca.cov_mat_rel, dtype=float)
    ok = ctx.close("constraint.cov_mat_rel", np.array(cb.cov_mat_rel, dtype=float), Ra, tol=Tol.LINALG, scale=np.abs(Ra).max(), key=lambda: key("constraint.cov_mat_rel")) and ok
    # cor_mat of a relative specification is the correlation of the *relative* deviations, of an absolute one that of the absolute
    # deviations: the two differ by the sign pattern of the values, so they are compared where that pattern is trivial or the flag equal
    if ca.relative == cb.relative or not case["features"].get("mixed_sign_values"):
        ok = ctx.close("constraint.cor_mat", np.array(cb.cor_mat, dtype=float), np.array(ca.cor_mat, dtype=float), tol=Tol.LINALG, scale=1.0, key=lambda: key("constraint.cor_mat")) and ok
    return ok


# ================================================================== generators: convenience wrappers
XY_KW = {"x_error": ("x", False, False), "y_error": ("y", False, False), "x_error_rel": ("x", True, False), "y_error_rel": ("y", True, False),
         "x_error_cor": ("x", False, True), "y_error_cor": ("y", False, True), "x_error_cor_rel": ("x", True, True), "y_error_cor_rel": ("y", True, True)}
K2_NAMES = {"x_error": "sx", "y_error": "sy", "x_error_rel": "srelx", "y_error_rel": "srely", "x_error_cor": "xabscor", "y_error_cor": "yabscor",
            "x_error_cor_rel": "xrelcor", "y_error_cor_rel": "yrelcor", "errors_rel_to_model": "ref_to_model"}
GEN_KW = {"error": (False, False), "error_rel": (True, False), "error_cor": (False, True), "error_cor_rel": (True, True)}


def wrapper_error_value(rng, n, relative, correlated, scale, allow_matrix):
    """(value as given to the wrapper, kind)"""
    if correlated:
        if rng.random() < 0.5:
            return r6(scale * rng.uniform(0.3, 1.0)), "scalar"
        return rl(scale * rng.uniform(0.3, 1.0, size=int(rng.integers(1, 3)))), "list"
    r = rng.random()
    if r < 0.4:
        return r6(scale * rng.uniform(0.5, 1.5)), "scalar"
    if r < 0.8 or not allow_matrix:
        return rl(scale * rng.uniform(0.5, 1.5, size=n)), "vector"
    return np.array(gen.gen_psd(rng, n, scale=scale)).tolist(), "matrix"


def explicit_error_ops(name, value, kind, axis, relative, correlated, reference, is_xy):
    """the documented meaning of one wrapper error keyword as add_error / add_matrix_error ops"""
    ops = []
    ax = {"axis": axis} if is_xy else {}
    if correlated:
        vals = [value] if kind == "scalar" else list(value)
        for j, v in enumerate(vals):
            ops.append(["add_error", dict(ax, err=v, relative=relative, reference=reference, corr=1.0, name="%s_%d" % (name, j))])
    elif kind == "matrix":
        ops.append(["add_matrix_error", dict(ax, matrix=value, matrix_type="cov", err_val=None, relative=relative, reference=reference, name=name)])
    else:
        ops.append(["add_error", dict(ax, err=value, relative=relative, reference=reference, corr=0.0, name=name)])
    return ops


def generic_kwargs(rng, names, defaults, allow_fixed=True, allow_dp0=True):
    """p0 / dp0 / limits / fixed / constraints as wrapper keywords + the equivalent explicit ops (documented order of application)"""
    kw, ops, tup = {}, [], []
    d = np.array(defaults, dtype=float)
    if rng.random() < 0.5:
        kw["p0"] = rl(d * (1.0 + rng.uniform(-0.1, 0.1, size=len(d))) + rng.uniform(-0.02, 0.02, size=len(d)))
        ops.append(["set_all_parameter_values", kw["p0"]])
    if allow_dp0 and rng.random() < 0.3:
        kw["dp0"] = rl(0.1 * np.abs(d) + 0.01)
        ops.append(["set_parameter_errors", kw["dp0"]])
    order = [int(i) for i in rng.permutation(len(names))]
    if rng.random() < 0.4:
        lims = []
        for i in order[: int(rng.integers(1, 3))]:
            lo, hi = r6(d[i] - 10.0 * abs(d[i]) - 5.0), r6(d[i] + 10.0 * abs(d[i]) + 5.0)
            if rng.random() < 0.25:
                hi = None
            lims.append([names[i], lo, hi])
        kw["limits"] = lims[0] if (len(lims) == 1 and rng.random() < 0.6) else lims
        tup.append("limits")
        ops += [["limit_parameter", l[0], l[1], l[2]] for l in lims]
    free = list(order)
    if allow_fixed and len(names) >= 3 and rng.random() < 0.35:
        i = free.pop()
        if rng.random() < 0.5:
            v = r6(d[i] * rng.uniform(0.9, 1.1))
            fx = [names[i], v]
        else:
            v = None
            fx = [names[i]]
        kw["fixed"] = fx if rng.random() < 0.6 else [fx]
        tup.append("fixed")
        ops.append(["fix_parameter", names[i], v])
    if rng.random() < 0.45:
        cons = []
        for i in free[: int(rng.integers(1, 3))]:
            v = r6(d[i] * rng.uniform(0.85, 1.15) + 0.01)
            cons.append([names[i], v, r6(abs(v) * rng.uniform(0.05, 0.3) + 0.01)])
        kw["constraints"] = cons[0] if (len(cons) == 1 and rng.random() < 0.6) else cons
        tup.append("constraints")
        ops += [["add_parameter_constraint_positional", c] for c in cons]
    return kw, ops, tup


def wrapper_case(variant, sub, A, B, rng, names, defaults, **extra):
    case = {"property": "C14", "family": "wrapper", "variant": variant, "sub": sub, "minimizer": None, "A": A, "B": B,
            "points": points_for(rng, defaults, rel=0.08), "start": None, "do_fit": True, "compare_sources": False}
    case.update(extra)
    return case


def gen_wrapper_xy(rng, tier, variant, sub):
    func = "k2Fit" if variant == "k2Fit" else "xy_fit"
    default_model = sub == "default-model"
    if default_model:
        spec = base_spec(rng, tier, "xy", family="poly1")
        md = mdesc_library("linear_model")
        mfA, mfB = {"form": "default"}, {"form": "callable", "text": md_source(md)}
        names, defaults = md["params"], md["defaults"]
    else:
        fam = str(rng.choice(["poly1", "poly2", "trig", "exponential", "expbasis", "poly3"]))
        spec = base_spec(rng, tier, "xy", family=fam, mixed_y=bool(rng.random() < 0.3))
        mfA = mfB = {"form": "vlib", "spec": spec["model"]}
        m = Model.from_spec(spec["model"])
        names, defaults = list(m.pnames), list(m.defaults)
    x, y = np.array(spec["x"]), np.array(spec["y"])
    n = len(x)
    rel_to_model = {"default": None, "true": True, "false": False}[str(rng.choice(["default", "default", "true", "false"]))]
    eff_model = rel_to_model is not False
    forced_matrix = None
    if sub == "rel-only":
        chosen = ["y_error_rel"]
    elif sub == "rel-matrix":
        forced_matrix = str(rng.choice(["x_error_rel", "y_error_rel"]))
        if forced_matrix == "y_error_rel":
            rel_to_model, eff_model = False, False  # (a matrix relative to the model is a documented NotImplementedError)
        chosen = ["y_error", forced_matrix]
    elif sub.startswith("only:"):
        k0 = sub[5:]
        chosen = [k0] if k0 in ("y_error", "y_error_rel") else ["y_error", k0]
    else:
        others = [k for k in XY_KW if k != "y_error"]
        chosen = ["y_error"] + [str(k) for k in rng.choice(others, size=int(rng.integers(0, 4)), replace=False)]
    kw, ops, arr = {}, [], []
    compare_errors = True
    for k in chosen:
        axis, relative, correlated = XY_KW[k]
        scale = (0.03 if axis == "x" else 0.06) if relative else (0.08 if axis == "x" else 0.1 * float(np.abs(y).mean() + np.std(y) + 0.3))
        reference = "model" if (relative and axis == "y" and eff_model) else "data"
        allow_matrix = not (relative and reference == "model")
        val, kind = wrapper_error_value(rng, n, relative, correlated, scale, allow_matrix)
        if sub == "rel-only":
            val, kind = r6(scale * rng.uniform(0.8, 1.5)), "scalar"
        if k == forced_matrix:
            val, kind = np.array(gen.gen_psd(rng, n, scale=scale)).tolist(), "matrix"
        kw[k] = val
        if kind in ("vector", "matrix", "list"):
            arr.append(k)
        ops += explicit_error_ops(k, val, kind, axis, relative, correlated, reference, True)
    if rel_to_model is not None:
        kw["errors_rel_to_model"] = rel_to_model
    gk, gops, tup = generic_kwargs(rng, names, defaults, allow_fixed=(func == "xy_fit"))
    kw.update(gk)
    ops += gops
    do_fit = {}
    if func == "xy_fit":
        kw.update(save=False, report=False)
        prof = str(rng.choice(["false", "false", "true", "default"]))
        if prof != "default":
            kw["profile"] = prof == "true"
            do_fit = {"asymmetric_parameter_errors": prof == "true"}
        else:
            # xy_fit's docstring leaves the meaning of profile=None open (the code then decides from the kinds of errors given): whether the
            # asymmetric errors are evaluated influences the reported symmetric errors at the percent level, so they are not compared here
            compare_errors = False
    else:
        kw = {K2_NAMES.get(k, k): v for k, v in kw.items()}
        arr = [K2_NAMES.get(k, k) for k in arr]
        kw.update(plot=False, quiet=True, asym_parerrs=bool(rng.random() < 0.5))
        do_fit = {"asymmetric_parameter_errors": True}
    data = {"x": spec["x"], "y": spec["y"]}
    A = {"how": "wrapper", "func": func, "ftype": "xy", "model": mfA, "data": data, "kwargs": kw, "array_kwargs": arr, "tuple_kwargs": tup}
    B = {"how": "explicit", "ftype": "xy", "model": mfB, "data": data, "ops": ops, "do_fit": do_fit}
    return wrapper_case(variant, sub, A, B, rng, names, defaults, compare_errors=compare_errors, features={"keywords": sorted(k for k in kw if k not in ("save", "report", "plot", "quiet")), "rel_to_model": eff_model})


def gen_wrapper_generic(rng, tier, variant, sub):
    """indexed_fit / hist_fit / unbinned_fit"""
    default_model = sub == "default-model"
    kw, ops, arr = {}, [], []
    fit_kwargs = {}
    if variant == "indexed_fit":
        fam = str(rng.choice(["poly1", "poly2", "trig", "exponential"]))
        spec = base_spec(rng, tier, "indexed", family=fam, mixed_y=bool(rng.random() < 0.3))
        data = {"data": spec["data"]}
        mfA = mfB = {"form": "vlib", "spec": spec["model"], "indexed_x": spec["x"]}
        ref = np.array(spec["data"])
        ftype = "indexed"
    elif variant == "hist_fit":
        spec = base_spec(rng, tier, "hist")
        if default_model:
            # the documented default model is a normal distribution with mu = sigma = 1
            ent = np.random.default_rng(int(rng.integers(0, 2**31))).normal(1.1, 0.9, size=int(rng.integers(40, 120)))
            spec = dict(spec, entries=rl(ent), edges=rl(np.linspace(-2.0, 4.0, int(rng.integers(5, 9)))), model=Model("normal", density=True, defaults=[1.0, 1.0]).spec())
        e = spec["edges"]
        if rng.random() < 0.5 or default_model:
            data = {"entries": spec["entries"], "bin_edges": e}
        else:
            nb = len(e) - 1
            data = {"entries": spec["entries"], "n_bins": nb, "bin_range": [e[0], e[-1]]}
            spec = dict(spec, edges=[float(v) for v in np.linspace(e[0], e[-1], nb + 1)])
        mfA = mfB = {"form": "vlib", "spec": spec["model"]}
        ref = data_of(spec)
        ftype = "hist"
    else:
        dens = "normal" if default_model else str(rng.choice(["normal", "expdens", "normal"]))
        spec = gen.gen_unbinned_spec(rng, density=dens, n=int(rng.integers(15, 40)))
        if default_model:
            spec = dict(spec, data=rl(np.array(spec["data"]) + 0.8), model=Model("normal", density=True, defaults=[1.0, 1.0]).spec())
        data = {"data": spec["data"]}
        mfA = mfB = {"form": "vlib", "spec": spec["model"]}
        ref = None
        ftype = "unbinned"
    if default_model:
        mfA = {"form": "default"}
        mfB = {"form": "callable", "text": md_source(mdesc_library("normal_distribution"))}
    m = Model.from_spec(spec["model"])
    names, defaults = list(m.pnames), list(m.defaults)
    if ftype != "unbinned":
        n = len(ref)
        rel_to_model = {"default": None, "true": True, "false": False}[str(rng.choice(["default", "default", "true", "false"]))]
        eff_model = rel_to_model is not False
        any_err = ftype == "indexed" or rng.random() < 0.7 or sub.startswith("only:")
        chosen = []
        if any_err:
            chosen = ["error"] + [str(k) for k in rng.choice(["error_rel", "error_cor", "error_cor_rel"], size=int(rng.integers(0, 3)), replace=False)]
            if sub == "rel-only":
                chosen = ["error_rel"]
            if sub == "rel-matrix":
                chosen, rel_to_model, eff_model = ["error", "error_rel"], False, False
            if sub.startswith("only:"):
                k0 = sub[5:]
                chosen = [k0] if k0 in ("error", "error_rel") else ["error", k0]
        for k in chosen:
            relative, correlated = GEN_KW[k]
            scale = 0.06 if relative else 0.1 * float(np.abs(ref).mean() + np.std(ref) + 0.3)
            reference = "model" if (relative and eff_model) else "data"
            val, kind = wrapper_error_value(rng, n, relative, correlated, scale, not (relative and reference == "model"))
            if sub == "rel-only":
                val, kind = r6(scale * rng.uniform(0.8, 1.5)), "scalar"
            if sub == "rel-matrix" and k == "error_rel":
                val, kind = np.array(gen.gen_psd(rng, n, scale=scale)).tolist(), "matrix"
            kw[k] = val
            if kind in ("vector", "matrix", "list"):
                arr.append(k)
            ops += explicit_error_ops(k, val, kind, None, relative, correlated, reference, False)
        if rel_to_model is not None:
            kw["errors_rel_to_model"] = rel_to_model
        if ftype == "hist":
            ga = {"default": None, "true": True, "false": False}[str(rng.choice(["default", "default", "true", "false"]))]
            if sub.startswith("only:"):
                ga = None
            if ga is not None:
                kw["gauss_approximation"] = ga
            eff_ga = bool(chosen) if ga is None else ga
            fit_kwargs = {"cost_function": "gauss_approximation" if eff_ga else "poisson", "density": True}
            if rng.random() < 0.3:
                kw["density"] = True
    gk, gops, tup = generic_kwargs(rng, names, defaults, allow_fixed=(len(names) >= 3))
    kw.update(gk)
    ops += gops
    prof = bool(rng.random() < 0.2)
    kw.update(save=False, report=False, profile=prof)
    A = {"how": "wrapper", "func": variant, "ftype": ftype, "model": mfA, "data": data, "kwargs": kw, "array_kwargs": arr, "tuple_kwargs": tup}
    B = {"how": "explicit", "ftype": ftype, "model": mfB, "data": data, "fit_kwargs": fit_kwargs, "ops": ops, "do_fit": {"asymmetric_parameter_errors": prof}}
    return wrapper_case(variant, sub, A, B, rng, names, defaults, features={"keywords": sorted(k for k in kw if k not in ("save", "report"))})


def gen_wrapper_custom(rng, tier, variant, sub):
    k = int(rng.integers(2, 4))
    names = ["a", "b", "c"][:k]
    defaults = rl(rng.uniform(0.5, 2.0, size=k), 3)
    tgt = rl(rng.uniform(-2.0, 2.0, size=k), 3)
    sg = rl(rng.uniform(0.1, 0.5, size=k), 3)
    terms = ["((%s - %s) / %s) ** 2" % (n, fnum(t), fnum(s)) for n, t, s in zip(names, tgt, sg)]
    terms.append("%s * (%s - %s) ** 2" % (fnum(r6(rng.uniform(0.5, 3.0))), names[0], names[1]))
    terms.append("%s * (%s) ** 4" % (fnum(r6(rng.uniform(0.01, 0.1))), " + ".join(names)))
    text = "def cost(%s):\n    return %s\n" % (", ".join("%s=%s" % (n, fnum(d)) for n, d in zip(names, defaults)), " + ".join(terms))
    kw, ops, tup = generic_kwargs(rng, names, defaults, allow_fixed=(k >= 3))
    prof = bool(rng.random() < 0.3)
    kw.update(save=False, report=False, profile=prof)
    A = {"how": "wrapper", "func": "custom_fit", "cost_text": text, "kwargs": kw, "array_kwargs": [], "tuple_kwargs": tup}
    B = {"how": "explicit", "ftype": "custom", "cost_text": text, "ops": ops, "do_fit": {"asymmetric_parameter_errors": prof}}
    return wrapper_case(variant, sub, A, B, rng, names, defaults, features={"keywords": sorted(k2 for k2 in kw if k2 not in ("save", "report"))})


def gen_wrapper_Fit(rng, tier, variant, sub):
    """kafe2.Fit(data, model_function, minimizer, **kwargs) <-> the fit class it documents to select"""
    ftype, data_as = {"xy-list": ("xy", "raw"), "xy-ndarray": ("xy", "ndarray"), "xy-container": ("xy", "container"), "indexed": ("indexed", "container"), "hist": ("hist", "container"), "unbinned": ("unbinned", "container")}[sub]
    minimizer = pick_min(rng)
    fit_kwargs = {"minimizer": minimizer}
    ops = []
    if ftype in ("xy", "indexed"):
        spec = base_spec(rng, tier, ftype, mixed_y=bool(rng.random() < 0.3))
        data = {"x": spec["x"], "y": spec["y"]} if ftype == "xy" else {"data": spec["data"]}
        mf = {"form": "vlib", "spec": spec["model"]}
        if ftype == "indexed":
            mf["indexed_x"] = spec["x"]
        ops.append(base_error(spec, rng))
        if rng.random() < 0.5:
            ops.append(gen.gen_source(rng, len(data_of(spec)), ftype, "e1", yscale=float(np.abs(data_of(spec)).mean() + 0.5)))
        if rng.random() < 0.5:
            fit_kwargs["cost_function"] = str(rng.choice(["chi2", "nll_gaussian", "chi2_pointwise"]))
        if ftype == "xy" and rng.random() < 0.3 and sub != "xy-list":
            mf = {"form": "default"}
    elif ftype == "hist":
        spec = base_spec(rng, tier, "hist")
        data = {"entries": spec["entries"], "bin_edges": spec["edges"]}
        mf = {"form": "vlib", "spec": spec["model"]}
        fit_kwargs["bin_evaluation"] = str(rng.choice(["simpson", "trapezoid", "numerical"]))
        fit_kwargs["cost_function"] = str(rng.choice(["poisson", "gauss_approximation"]))
    else:
        spec = gen.gen_unbinned_spec(rng, density=str(rng.choice(["normal", "expdens"])), n=int(rng.integers(15, 40)))
        data = {"data": spec["data"]}
        mf = {"form": "vlib", "spec": spec["model"]}
    if mf["form"] == "default":
        names, defaults = ["a", "b"], [1.0, 1.0]
    else:
        m = Model.from_spec(spec["model"])
        names, defaults = list(m.pnames), list(m.defaults)
    A = {"how": "explicit", "ftype": ftype, "model": mf, "data": data, "data_as": data_as, "fit_kwargs": fit_kwargs, "ops": ops, "via_Fit": True}
    B = dict(A, via_Fit=False, data_as="raw" if ftype in ("xy", "indexed", "unbinned") else "container")
    case = wrapper_case(variant, sub, A, B, rng, names, defaults, features={"data_as": data_as, "fit_kwargs": sorted(fit_kwargs)})
    case["minimizer"] = minimizer
    case["start"] = [float(v) for v in defaults]
    return case


# ================================================================== generators: model forms
def dump_yaml(doc):
    import yaml

    class D(yaml.SafeDumper):
        pass

    def rep_str(dumper, s):
        return dumper.represent_scalar("tag:yaml.org,2002:str", s, style="|" if "\n" in s else None)

    D.add_representer(str, rep_str)
    return yaml.dump(doc, Dumper=D, default_flow_style=None, sort_keys=False, width=100000)


def library_data(rng, md, ftype, n):
    f = exec_source(md_source(md))
    ptrue = [d * rng.uniform(0.9, 1.1) for d in md["defaults"]]
    if ftype == "xy":
        x = np.array(gen.gen_x(rng, n, kind="increasing"))
        if md["name"] == "exponential_model":
            x = np.round(x / 2.0, 4)
        y = f(x, *ptrue)
        y = y + rng.normal(size=n) * 0.05 * (np.abs(y).mean() + 0.1)
        return {"x": rl(x, 4), "y": rl(y, 5)}
    ent = rng.normal(ptrue[0], abs(ptrue[1]), size=n)
    if ftype == "unbinned":
        return {"data": rl(ent)}
    return {"entries": rl(ent), "bin_edges": rl(np.linspace(-2.5, 4.5, int(rng.integers(5, 9))))}


def pick_rename(rng, md_params, force_sympy_name=False):
    pool = [n for n in RENAME_POOL if n not in md_params]
    k = int(rng.integers(1, len(md_params) + 1))
    olds = [md_params[int(i)] for i in rng.choice(len(md_params), size=k, replace=False)]
    news = [str(v) for v in rng.choice(pool, size=k, replace=False)]
    if force_sympy_name:
        news[0] = str(rng.choice(["E", "I", "N", "S", "Q", "beta", "gamma"]))
        news = list(dict.fromkeys(news))
        olds = olds[: len(news)]
    return dict(zip(olds, news))


MODEL_FORMS = ["library", "sympy", "sympy-noname", "source", "yaml-source", "yaml-string"]


def gen_model_form(rng, tier, variant, sub):
    """variant = form of specification B (A is always the plain callable); sub = origin of the model / fit type"""
    form = variant
    nmax = 9 if tier == "quick" else 16
    if form == "library" or sub.startswith("lib"):
        alias = None
        if sub in ("lib-unbinned", "lib-hist"):
            lib = "normal_distribution"
        elif sub.startswith("lib:"):
            alias = sub[4:]
            lib = [k for k, v in LIBRARY.items() if alias in v[0]][0]
        else:
            lib = str(rng.choice(["linear_model", "quadratic_model", "cubic_model", "exponential_model"]))
        ftype = {"lib-unbinned": "unbinned", "lib-hist": "hist"}.get(sub, "unbinned" if lib == "normal_distribution" else "xy")
        md = mdesc_library(lib)
        data = library_data(rng, md, ftype, int(rng.integers(len(md["params"]) + 2, nmax + 1)) if ftype == "xy" else int(rng.integers(30, 80)))
        lib_string = alias or str(rng.choice(LIBRARY[lib][0]))
    else:
        lib_string = None
        if sub == "density-unbinned":
            spec = gen.gen_unbinned_spec(rng, density=str(rng.choice(["normal", "expdens"])), n=int(rng.integers(15, 40)))
            ftype, data = "unbinned", {"data": spec["data"]}
        elif sub == "density-hist":
            spec = base_spec(rng, tier, "hist")
            ftype, data = "hist", {"entries": spec["entries"], "bin_edges": spec["edges"]}
        elif sub == "indexed":
            spec = base_spec(rng, tier, "indexed")
            ftype, data = "indexed", {"data": spec["data"]}
        else:
            fam = str(rng.choice(["poly1", "poly2", "trig", "exponential", "gausspeak", "lorentz", "sinusoid", "logistic", "expbasis", "powerlaw"]))
            spec = gen.gen_xy_spec(rng, family=fam, n=n_points(rng, fam, nmax))
            if fam in SHIFTABLE and rng.random() < 0.4:
                shift_y(spec, rng)  # negative defaults
            ftype, data = "xy", {"x": spec["x"], "y": spec["y"]}
        m = Model.from_spec(spec["model"])
        rename = None
        if sub == "renamed" or (sub == "vlib" and rng.random() < 0.3):
            rename = pick_rename(rng, list(m.pnames), force_sympy_name=(sub == "renamed" and rng.random() < 0.6))
        md = mdesc_from_model(m, rename)
        if sub == "indexed":
            md["indexed_x"] = spec["x"]
    ix = md.get("indexed_x")
    text = md_source(md, indexed_x=ix)
    minimizer = pick_min(rng)
    ops = []
    yaml_err = None
    if ftype in ("xy", "indexed"):
        yv = np.array(data["y"] if ftype == "xy" else data["data"])
        s = r6(0.1 * (np.abs(yv).mean() + np.std(yv) + 0.1) * rng.uniform(0.7, 1.4))
        ops.append(["add_error", dict({"axis": "y"} if ftype == "xy" else {}, err=s, relative=False, reference="data", corr=0.0, name="base")])
        yaml_err = s
    fit_kwargs = {"minimizer": minimizer}
    A = {"how": "explicit", "ftype": ftype, "model": {"form": "callable", "text": text}, "data": data, "fit_kwargs": fit_kwargs, "ops": ops}
    if form == "library":
        mfB = {"form": "library", "string": lib_string}
    elif form in ("sympy", "sympy-noname"):
        mfB = {"form": "sympy", "string": md_sympy(md, with_name=(form == "sympy"))}
    elif form == "source":
        mfB = {"form": "source", "text": text}
    else:
        mfB = None
    if mfB is not None:
        B = dict(A, model=mfB)
    else:
        if form == "yaml-string":
            mstr = lib_string if (lib_string is not None and rng.random() < 0.5) else md_sympy(md)
        else:
            mstr = text
        doc = {"type": {"xy": "xy", "indexed": "indexed", "hist": "histogram", "unbinned": "unbinned"}[ftype]}
        if ftype == "xy":
            doc.update(x_data=data["x"], y_data=data["y"], y_errors=yaml_err)
        elif ftype == "indexed":
            doc.update(data=data["data"], errors=yaml_err)
        elif ftype == "unbinned":
            doc.update(data=data["data"])
        else:
            doc.update(bin_edges=data["bin_edges"], raw_data=data["entries"])
        doc["model_density_function" if ftype == "hist" else "model_function"] = mstr if rng.random() < 0.6 else {"python_code": mstr}
        doc["minimizer"] = minimizer
        B = {"how": "yaml", "text": dump_yaml(doc), "loader": str(rng.choice(["generic", {"xy": "XYFit", "indexed": "IndexedFit", "hist": "HistFit", "unbinned": "UnbinnedFit"}[ftype]]))}
    return {
        "property": "C14", "family": "model-form", "variant": variant, "sub": sub, "minimizer": minimizer, "A": A, "B": B,
        "points": points_for(rng, md["defaults"], rel=0.08), "start": [float(v) for v in md["defaults"]], "do_fit": True, "compare_sources": False,
        "compare_signature": True, "features": {"params": md["params"], "ftype": ftype, "form": form, "library_string": lib_string},
    }


# ================================================================== generators: YAML shorthand
def yaml_axis_errors(rng, kind, n, ref, axis):
    """(shorthand value, explicit yaml entries, python-explicit ops) for one axis of an xy container"""
    sc_abs = (0.08 if axis == "x" else 0.1 * float(np.abs(ref).mean() + np.std(ref) + 0.2))
    ax = {"axis": axis}
    if kind == "percent-scalar":
        pc = float(np.round(rng.uniform(1.0, 12.0) * (0.4 if axis == "x" else 1.0), 2))
        if rng.random() < 0.5:
            pc = float(int(pc) + 1)
        short = ("%d%%" % pc) if pc == int(pc) and rng.random() < 0.7 else ("%s%%" % repr(pc))
        rel = pc / 100.0
        expl = [{"type": "simple", "error_value": rel, "relative": True, "correlation_coefficient": 0.0}]
        ops = [["add_error", dict(ax, err=rel, relative=True, reference="data", corr=0.0, name=axis + "rel")]]
        return short, expl, ops
    if kind == "float-scalar":
        s = r6(sc_abs * rng.uniform(0.6, 1.5))
        short = int(np.ceil(s)) if (rng.random() < 0.2) else s  # an int scalar is documented shorthand for xy as well
        s = float(short)
        expl = [{"type": "simple", "error_value": s, "relative": False, "correlation_coefficient": 0.0}]
        return short, expl, [["add_error", dict(ax, err=s, relative=False, reference="data", corr=0.0, name=axis + "abs")]]
    if kind == "single-mapping":
        # one error source written as a mapping, not wrapped in a list: the same source as the one-element list
        s = r6(sc_abs * rng.uniform(0.6, 1.5))
        c = float(rng.choice([0.0, 0.0, 0.3]))
        ent = {"type": "simple", "error_value": s, "relative": False, "correlation_coefficient": c}
        short = {k: v for k, v in ent.items() if not (k == "relative" or (k == "correlation_coefficient" and c == 0.0 and rng.random() < 0.5))}
        return short, [ent], [["add_error", dict(ax, err=s, relative=False, reference="data", corr=c, name=axis + "abs")]]
    if kind == "float-list":
        v = rl(sc_abs * rng.uniform(0.6, 1.5, size=n))
        expl = [{"type": "simple", "error_value": v, "relative": False, "correlation_coefficient": 0.0}]
        return v, expl, [["add_error", dict(ax, err=v, relative=False, reference="data", corr=0.0, name=axis + "abs")]]
    if kind == "mixed-list":
        short, rel, ab = [], np.zeros(n), np.zeros(n)
        isrel = rng.random(size=n) < 0.5
        isrel[0], isrel[-1] = True, False
        for i in range(n):
            if isrel[i]:
                pc = float(np.round(rng.uniform(1.0, 12.0) * (0.4 if axis == "x" else 1.0), 1))
                short.append("%s%%" % (("%d" % pc) if pc == int(pc) else repr(pc)))
                rel[i] = pc / 100.0
            else:
                ab[i] = r6(sc_abs * rng.uniform(0.6, 1.5))
                short.append(float(ab[i]))
        expl = [{"type": "simple", "error_value": [float(v) for v in rel], "relative": True, "correlation_coefficient": 0.0},
                {"type": "simple", "error_value": [float(v) for v in ab], "relative": False, "correlation_coefficient": 0.0}]
        ops = [["add_error", dict(ax, err=[float(v) for v in rel], relative=True, reference="data", corr=0.0, name=axis + "rel")],
               ["add_error", dict(ax, err=[float(v) for v in ab], relative=False, reference="data", corr=0.0, name=axis + "abs")]]
        return short, expl, ops
    raise KeyError(kind)


YAML_KINDS = ["percent-scalar", "float-scalar", "float-list", "mixed-list", "single-mapping"]


def gen_yaml(rng, tier, variant, sub):
    minimizer = pick_min(rng)
    if sub == "xy":
        fam = str(rng.choice(["poly1", "poly2", "trig", "exponential", "expbasis"]))
        spec = base_spec(rng, tier, "xy", family=fam, mixed_y=bool(variant != "percent-scalar" and rng.random() < 0.4))
        m = Model.from_spec(spec["model"])
        md = mdesc_from_model(m)
        text = md_source(md)
        x, y = np.array(spec["x"]), np.array(spec["y"])
        n = len(x)
        ykind = variant if variant in YAML_KINDS else str(rng.choice(YAML_KINDS))
        force_x_percent = variant == "x-percent"
        # a purely relative y source needs data away from zero for a well-conditioned covariance; otherwise the percent strings
        # go into a mixed list (which carries an absolute part) and the plain percent string onto the x axis
        if ykind == "percent-scalar" and not (np.min(np.abs(y)) > 0.2 * np.mean(np.abs(y))):
            ykind, force_x_percent = "mixed-list", True
        ys, yexpl, yops = yaml_axis_errors(rng, ykind, n, y, "y")
        short = {"x_data": spec["x"], "y_data": spec["y"], "y_errors": ys}
        dataset = {"type": "xy", "x_data": spec["x"], "y_data": spec["y"], "y_errors": yexpl}
        ops = list(yops)
        if rng.random() < 0.6 or force_x_percent:
            xkind = "percent-scalar" if force_x_percent else str(rng.choice(YAML_KINDS))
            xs, xexpl, xops = yaml_axis_errors(rng, xkind, n, x, "x")
            short["x_errors"] = xs
            dataset["x_errors"] = xexpl
            ops += xops
        short["model_function"] = text if (variant != "model-dict" and rng.random() < 0.7) else {"python_code": text}
        pm = {"type": "xy", "x_data": spec["x"], "model_function": {"type": "xy", "python_code": text}}
        names, defaults = md["params"], md["defaults"]
        if rng.random() < 0.3 or variant == "model-parameters":
            p0 = rl(np.array(defaults) * rng.uniform(0.9, 1.1, size=len(defaults)) + 0.01)
            short["model_parameters"] = p0
            pm["model_parameters"] = p0
            ops.append(["set_all_parameter_values", p0])
            defaults = p0
        expl = {"type": "xy", "dataset": dataset, "parametric_model": pm}
        if rng.random() < 0.5 or variant == "constraint-dict":
            k = int(rng.integers(1, min(2, len(names)) + 1))
            cd, cl = {}, []
            for i in [int(j) for j in rng.choice(len(names), size=k, replace=False)]:
                v = r6(defaults[i] * rng.uniform(0.85, 1.15) + 0.02)
                relc = bool(rng.random() < 0.5)
                u = r6(rng.uniform(0.05, 0.3)) if relc else r6(abs(v) * rng.uniform(0.05, 0.3) + 0.01)
                cd[names[i]] = {"value": v, "uncertainty": u}
                ent = {"type": "simple", "name": names[i], "value": v, "uncertainty": u, "relative": relc}
                if relc:
                    cd[names[i]]["relative"] = True
                cl.append(ent)
                ops.append(["add_parameter_constraint", {"name": names[i], "value": v, "uncertainty": u, "relative": relc}])
            short["parameter_constraints"] = cd
            expl["parameter_constraints"] = cl
        if rng.random() < 0.5:
            short["minimizer"] = expl["minimizer"] = minimizer
        else:
            minimizer = None
        if rng.random() < 0.5:
            short = dict([("type", "xy")] + list(short.items()))
        loader = str(rng.choice(["XYFit", "generic"]))
        if variant == "model-section-errors":
            # the only uncertainties of the fit are declared in the parametric_model section of the file (relative to the model + an
            # absolute part): the same fit as add_error(..., reference="model") on a fit built from bare data
            rel = r6(rng.uniform(0.03, 0.1))
            ab = r6(0.1 * float(np.abs(y).mean() + 0.2) * rng.uniform(0.6, 1.5))
            ents = [{"type": "simple", "error_value": rel, "relative": True, "correlation_coefficient": 0.0}, {"type": "simple", "error_value": ab, "relative": False, "correlation_coefficient": 0.0}]
            for kk in ("y_errors", "x_errors"):
                short.pop(kk, None)
                dataset.pop(kk, None)
            ops[:] = [o for o in ops if o[0] not in ("add_error", "add_matrix_error")]
            pm["y_errors"] = [dict(e_) for e_ in ents]
            spm = {"model_function": short.pop("model_function"), "y_errors": [dict(e_) for e_ in ents]}
            if "model_parameters" in short:
                spm["model_parameters"] = short.pop("model_parameters")
            short["parametric_model"] = spm
            ops.append(["add_error", {"axis": "y", "err": rel, "relative": True, "reference": "model", "corr": 0.0, "name": "mrel"}])
            ops.append(["add_error", {"axis": "y", "err": ab, "relative": False, "reference": "model", "corr": 0.0, "name": "mabs"}])
            ykind = "model-section"
        C = {"how": "explicit", "ftype": "xy", "model": {"form": "callable", "text": text}, "data": {"x": spec["x"], "y": spec["y"]}, "fit_kwargs": {"minimizer": minimizer} if minimizer else {}, "ops": ops}
        feats = {"y_errors": ykind, "x_errors": "x_errors" in short, "keys": sorted(short)}
    else:
        ftype = sub
        ops = []
        if ftype == "indexed":
            spec = base_spec(rng, tier, "indexed", mixed_y=bool(rng.random() < 0.3))
            m = Model.from_spec(spec["model"])
            md = mdesc_from_model(m)
            text = md_source(md, indexed_x=spec["x"])
            d = np.array(spec["data"])
            n = len(d)
            if variant == "float-list":
                e = rl(0.1 * float(np.abs(d).mean() + np.std(d) + 0.2) * rng.uniform(0.6, 1.5, size=n))
            else:
                e = r6(0.1 * float(np.abs(d).mean() + np.std(d) + 0.2) * rng.uniform(0.6, 1.5))
            short = {"type": "indexed", "data": spec["data"], "errors": {"type": "simple", "error_value": e} if variant == "single-mapping" else e, "model_function": text}
            expl = {"type": "indexed", "dataset": {"type": "indexed", "data": spec["data"], "errors": [{"type": "simple", "error_value": e, "relative": False, "correlation_coefficient": 0.0}]},
                    "parametric_model": {"type": "indexed", "model_function": {"type": "indexed", "python_code": text}}}
            ops = [["add_error", {"err": e, "relative": False, "reference": "data", "corr": 0.0, "name": "abs"}]]
            data = {"data": spec["data"]}
            loader = str(rng.choice(["IndexedFit", "generic"]))
        elif ftype == "hist":
            spec = base_spec(rng, tier, "hist")
            m = Model.from_spec(spec["model"])
            md = mdesc_from_model(m)
            text = md_source(md)
            e = spec["edges"]
            if rng.random() < 0.5:
                nb = len(e) - 1
                bins = {"n_bins": nb, "bin_range": [e[0], e[-1]]}
            else:
                bins = {"bin_edges": e}
            short = dict({"type": "histogram"}, **bins, raw_data=spec["entries"], model_density_function=text)
            expl = {"type": "histogram", "dataset": dict({"type": "histogram"}, **bins, raw_data=spec["entries"]),
                    "parametric_model": dict({"type": "histogram"}, **bins, model_density_function={"type": "histogram", "python_code": text})}
            data = dict({"entries": spec["entries"]}, **bins)
            loader = str(rng.choice(["HistFit", "generic"]))
        else:
            spec = gen.gen_unbinned_spec(rng, density=str(rng.choice(["normal", "expdens"])), n=int(rng.integers(15, 40)))
            m = Model.from_spec(spec["model"])
            md = mdesc_from_model(m)
            text = md_source(md)
            short = {"type": "unbinned", "data": spec["data"], "model_function": text}
            expl = {"type": "unbinned", "dataset": {"type": "unbinned", "data": spec["data"]}, "parametric_model": {"type": "unbinned", "data": spec["data"], "model_function": {"type": "unbinned", "python_code": text}}}
            data = {"data": spec["data"]}
            loader = str(rng.choice(["UnbinnedFit", "generic"]))
        names, defaults = md["params"], md["defaults"]
        short["minimizer"] = expl["minimizer"] = minimizer
        C = {"how": "explicit", "ftype": ftype, "model": {"form": "callable", "text": text}, "data": data, "fit_kwargs": {"minimizer": minimizer}, "ops": ops}
        feats = {"keys": sorted(short)}
    return {
        "property": "C14", "family": "yaml", "variant": variant, "sub": sub, "minimizer": minimizer,
        "A": {"how": "yaml", "text": dump_yaml(short), "loader": loader}, "B": {"how": "yaml", "text": dump_yaml(expl), "loader": loader}, "C": C,
        "points": points_for(rng, defaults, rel=0.08), "start": [float(v) for v in defaults], "do_fit": True, "compare_sources": False, "compare_signature": True, "features": feats,
    }


# ================================================================== strata + dispatch
def _strata():
    S = []
    for v, subs in (("simple-rho0", SUBS), ("simple-rho", ["xy-y", "xy-x", "indexed"]), ("matrix-cov", ["xy-y", "indexed"]), ("matrix-cor", ["xy-y", "xy-x"]), ("model-ref-point", ["xy-y", "indexed", "xy-y-only", "indexed-only"])):
        S += [("rel-abs", v, s) for s in subs]
    for v, subs in (("abs", ["xy-y", "xy-x", "hist"]), ("rel", ["xy-y", "indexed"]), ("scalar-errval", ["xy-y"]), ("model-ref", ["xy-y", "indexed"]), ("container", ["xy-y", "xy-x", "indexed"])):
        S += [("cor-cov", v, s) for s in subs]
    for v, subs in (("abs", SUBS), ("rel", ["xy-y", "xy-x"]), ("model-ref", ["xy-y", "indexed"]), ("rho1", ["xy-y"])):
        S += [("simple-matrix", v, s) for s in subs]
    for v, subs in (("fit", SUBS), ("container", SUBS), ("multifit", ["xy-y", "indexed"]), ("rel", ["xy-y", "xy-x"]), ("model-ref", ["xy-y", "hist"]), ("cor-errval", ["xy-y"])):
        S += [("scalar-vector", v, s) for s in subs]
    S += [("constraint", v, "xy") for v in ("simple-rel-abs", "matrix-covrel-covabs", "matrix-cor-cov", "matrix-correl-covrel", "matrix-correl-covabs")] + [("constraint", "simple-rel-abs", "indexed")]
    for v, subs in (("xy_fit", ["model", "default-model", "rel-only", "rel-matrix"] + ["only:" + k for k in XY_KW]), ("k2Fit", ["model"]), ("indexed_fit", ["model", "rel-only", "rel-matrix"] + ["only:" + k for k in GEN_KW]),
                    ("hist_fit", ["model", "default-model"] + ["only:" + k for k in GEN_KW]), ("unbinned_fit", ["model", "default-model"]), ("custom_fit", ["-"]),
                    ("Fit", ["xy-list", "xy-ndarray", "xy-container", "indexed", "hist", "unbinned"])):
        S += [("wrapper", v, s) for s in subs]
    for v, subs in (("library", ["lib-unbinned", "lib-hist"] + ["lib:" + a for v in LIBRARY.values() for a in v[0]]), ("sympy", ["lib-xy", "vlib", "renamed", "density-unbinned", "density-hist"]), ("sympy-noname", ["vlib"]), ("source", ["lib-xy", "vlib", "renamed", "indexed"]),
                    ("yaml-source", ["vlib", "indexed", "density-hist", "density-unbinned"]), ("yaml-string", ["lib-xy", "vlib"])):
        S += [("model-form", v, s) for s in subs]
    S += [("yaml", v, "xy") for v in ("percent-scalar", "float-scalar", "float-list", "mixed-list", "single-mapping", "x-percent", "model-dict", "model-parameters", "constraint-dict", "model-section-errors")]
    S += [("yaml", "float-scalar", "indexed"), ("yaml", "float-list", "indexed"), ("yaml", "single-mapping", "indexed"), ("yaml", "toplevel", "hist"), ("yaml", "toplevel", "unbinned")]
    return S


STRATA = _strata()
_BY_FAMILY = {f: [s for s in STRATA if s[0] == f] for f in FAMILY_NAMES}
GENERATORS = {"rel-abs": gen_rel_abs, "cor-cov": gen_cor_cov, "simple-matrix": gen_simple_matrix, "scalar-vector": gen_scalar_vector, "constraint": gen_constraint_case, "model-form": gen_model_form, "yaml": gen_yaml}
FAMILY_WEIGHTS = [0.16, 0.08, 0.1, 0.1, 0.1, 0.2, 0.14, 0.12]


def gen_container_copy(rng):
    """the container handed to XYFit and the container changed by the caller afterwards: two specifications of the same fit iff the fit
    owns what it was given (a relative uncertainty keeps referring to the values the fit holds)"""
    n = int(rng.integers(4, 9))
    x = [float(v) for v in np.round(np.sort(rng.uniform(0.5, 6.0, size=n)), 4)]
    y = [float(v) for v in np.round(rng.uniform(0.5, 3.0) + rng.uniform(0.5, 2.0) * np.array(x) + rng.normal(0, 0.2, size=n), 4)]
    srcs = [{"kind": "simple", "axis": "y", "err": float(np.round(rng.uniform(0.03, 0.12), 4)), "relative": True, "corr": float(rng.choice([0.0, 0.3])), "name": "r0"}]
    if rng.random() < 0.5:
        srcs.append({"kind": "simple", "axis": "x", "err": float(np.round(rng.uniform(0.01, 0.04), 4)), "relative": True, "corr": 0.0, "name": "r1"})
    if rng.random() < 0.5:
        srcs.append({"kind": "simple", "axis": "y", "err": float(np.round(rng.uniform(0.1, 0.3), 4)), "relative": False, "corr": 0.0, "name": "a0"})
    return {"property": "C14", "family": "container-copy", "variant": "xy", "sub": "relative-source", "x": x, "y": y, "sources": srcs, "scale": float(np.round(rng.uniform(3.0, 12.0), 3)), "read_first": bool(rng.random() < 0.3)}


def run_container_copy(ctx, case):
    from kafe2 import XYContainer, XYFit

    def build(mutate):
        c = XYContainer(np.array(case["x"]), np.array(case["y"]))
        for sdict in case["sources"]:
            dsl.apply_container_source(c, "xy", sdict)
        if case["read_first"]:
            _ = (c.x_err, c.y_err)
        f = XYFit(c)
        if mutate:
            c.y = case["scale"] * np.array(case["y"]) + 1.0
            c.x = case["scale"] * np.array(case["x"]) + 1.0
        return f

    ctx.op("caller-container-changed-after-fit-was-built")
    a, b = build(True), build(False)
    ok = True
    for name in ("x_data", "y_data", "x_data_error", "y_data_error", "cost_function_value"):
        ok = ctx.eq("container-copy." + name, np.array(getattr(a, name), dtype=float), np.array(getattr(b, name), dtype=float), detail={"what": "fit built from a container the caller changed afterwards vs fit built from an untouched container"}) and ok
    return True


def gen_case(rng, tier, idx, shard, nshards):
    if idx % 40 == 7:
        return gen_container_copy(rng)
    gi = idx * nshards + shard
    if gi < len(STRATA):
        fam, var, sub = STRATA[gi]
    else:
        fam = str(rng.choice(FAMILY_NAMES, p=FAMILY_WEIGHTS))
        fam, var, sub = _BY_FAMILY[fam][int(rng.integers(0, len(_BY_FAMILY[fam])))]
    if fam == "wrapper":
        if var in ("xy_fit", "k2Fit"):
            return gen_wrapper_xy(rng, tier, var, sub)
        if var == "custom_fit":
            return gen_wrapper_custom(rng, tier, var, sub)
        if var == "Fit":
            return gen_wrapper_Fit(rng, tier, var, sub)
        return gen_wrapper_generic(rng, tier, var, sub)
    return GENERATORS[fam](rng, tier, var, sub)


# ================================================================== classification of genuine findings (mechanism keys)
def sympy_shadowed(names):
    import sympy as sp

    out = []
    for n in names:
        try:
            v = sp.sympify(n)
            if not (isinstance(v, sp.Symbol) and v.name == n):
                out.append(n)
        except Exception:
            out.append(n)
    return out


def spec_uses_sympy_string(sf):
    if sf.get("how") == "explicit":
        return sf["model"].get("form") == "sympy"
    if sf.get("how") == "yaml":
        return "->" in sf["text"]
    return False


def classify(case, observable):
    try:
        if case["family"] == "model-form" and observable in ("realise.no-exception", "model", "exception") and any(spec_uses_sympy_string(case[k]) for k in ("A", "B")) and sympy_shadowed(case["features"]["params"]):
            # SymPy-style string whose parameter names exist in SymPy's namespace (E, I, N, S, Q, beta, gamma, ...): sympify() without
            # `locals` resolves them to constants / functions instead of the declared symbols
            return "C14/sympy-string-parameter-name-resolved-in-sympy-namespace"
        if case["family"] == "wrapper" and case["variant"] == "unbinned_fit" and case["sub"] == "default-model" and observable in ("realise.no-exception", "exception"):
            # unbinned_fit(model_function=None) passes None on to UnbinnedFit instead of using the documented default model
            return "C14/unbinned-fit-wrapper-passes-none-as-model-function"
    except Exception:
        return None
    return None


# ================================================================== execution
def compare_signature(ctx, case, fa, fb, tag, key):
    ok = ctx.eq("parameter_names", list(fb.parameter_names), list(fa.parameter_names), detail={"pair": tag}, key=lambda: key("parameter_names"))
    if ok:
        ok = ctx.eq("parameter_defaults", [float(v) for v in fb.parameter_values], [float(v) for v in fa.parameter_values], detail={"pair": tag}, key=lambda: key("parameter_defaults"))
    return ok


def run_pair(ctx, case, env, sa, sb, tag, key, point_index=None):
    """returns number of cost comparisons; -1 if the pair diverged"""
    w0 = n_wit(ctx)
    res, excs = [], []
    for sf in (sa, sb):
        try:
            with time_limit(60.0):
                res.append(realise(sf, env, ctx))
            excs.append(None)
        except Exception as e:
            res.append(None)
            excs.append((type(e).__name__, fmt_exc()))
    if excs[0] is not None or excs[1] is not None:
        if excs[0] is not None and excs[1] is not None and excs[0][0] == excs[1][0]:
            ctx.discard("both-specifications-raise-%s" % excs[0][0])  # failing alike is agreeing
            return 0
        ctx.violation(key("realise.no-exception"), "realise.no-exception", {"pair": tag, "traceback": (excs[0] or excs[1])[1], "first": excs[0] and excs[0][0], "second": excs[1] and excs[1][0]})
        return -1
    ra, rb = res
    fa, fb = ra["fit"], rb["fit"]
    ncost = 0
    if case.get("compare_signature"):
        if not compare_signature(ctx, case, fa, fb, tag, key):
            return -1
    if ra["fitted"] and rb["fitted"]:
        # wrapper <-> explicit: both have been fitted by their own specification
        if not compare_fit_results(ctx, case, fa, fb, tag, key, case["minimizer"]):
            return -1
        if "result" in ra and "result" in rb and "asymmetric_parameter_errors" in (sb.get("do_fit") or {}):
            compare_asymmetric(ctx, ra["result"], rb["result"], tag, key)
        if "k2" in ra:
            vals, errs, cor, gof = ra["k2"]
            asym = sa["kwargs"].get("asym_parerrs", True)
            exp_err = np.array(fb.asymmetric_parameter_errors, dtype=float) if asym else np.stack([-np.array(fb.parameter_errors), np.array(fb.parameter_errors)], axis=-1)
            sig = np.array(fb.parameter_errors, dtype=float)
            ctx.check("k2Fit.values", bool(np.all(np.abs(np.array(vals) - np.array(fb.parameter_values)) <= 1e-2 * sig + 1e-9)), {"got": vals, "expected": fb.parameter_values}, key=lambda: key("k2Fit.values"))
            ctx.check("k2Fit.errors", np.shape(errs) == exp_err.shape and bool(np.all(np.abs(np.array(errs) - exp_err) <= 2e-2 * np.abs(exp_err) + 1e-12)), {"got": errs, "expected": exp_err}, key=lambda: key("k2Fit.errors"))
            ctx.check("k2Fit.cor_mat", bool(np.all(np.abs(np.array(cor) - np.array(fb.parameter_cor_mat)) <= 2e-2)), {"got": cor, "expected": fb.parameter_cor_mat}, key=lambda: key("k2Fit.cor_mat"))
            ctx.check("k2Fit.chi2", abs(float(gof) - float(fb.goodness_of_fit)) <= 1e-3, {"got": gof, "expected": fb.goodness_of_fit}, key=lambda: key("k2Fit.chi2"))
        if n_wit(ctx) != w0:
            return -1
    sub = dict(case, points=[case["points"][point_index]]) if point_index is not None else case
    ncost = compare_at_points(ctx, sub, fa, fb, tag, key)
    if n_wit(ctx) != w0:
        return -1
    if case.get("compare_sources"):
        compare_sources(ctx, case, fa, fb, tag, key, bool(case.get("with_rel")))
        if n_wit(ctx) != w0:
            return -1
    if case.get("do_fit") and not (ra["fitted"] and rb["fitted"]) and point_index is None:
        start = case.get("start")
        if ra["fitted"] != rb["fitted"]:
            start = start or case["points"][0]
        if not fit_both(ctx, case, fa, fb, tag, key, case["minimizer"], start=start):
            return -1
    return ncost


def run_case(ctx, case, env):
    ctx.reseed_legacy()
    fam, var, sub = case["family"], case["variant"], case["sub"]
    ctx.stratum(fam, var, sub)
    if fam == "container-copy":
        return run_container_copy(ctx, case)
    ctx.add_to_set("family", fam)
    ctx.add_to_set("variant", "%s/%s" % (fam, var))
    feats = case.get("features") or {}
    ctx.add_to_set("ref-sign", "mixed-or-negative" if (feats.get("mixed_sign_reference") or feats.get("negative_value")) else "other")
    if fam == "model-form":
        ctx.add_to_set("model_form", var)

    def key(obs):
        return classify(case, obs)

    total = 0
    try:
        if fam == "constraint":
            if not compare_constraints(ctx, case, key):
                return False
        if "B_points" in case:
            for i, sb in enumerate(case["B_points"]):
                k = run_pair(ctx, case, env, case["A"], sb, "A~B[%d]" % i, key, point_index=i)
                if k < 0:
                    return total > 0
                total += k
        else:
            pairs = [("A", "B")] + ([("A", "C"), ("B", "C")] if "C" in case else [])
            for a, b in pairs:
                k = run_pair(ctx, case, env, case[a], case[b], "%s~%s" % (a, b), key)
                if k < 0:
                    return total > 0
                total += k
    finally:
        try:
            from kafe2.fit.util import wrapper as W

            del W._fit_history[:]
        except Exception:
            pass
    differs = case["A"] != case["B"]
    return bool(total > 0 and differs)


class Workdir:
    """per-run scratch directory: YAML files are written here and k2Fit (which cannot be told not to save) writes its `results/` here"""

    def __enter__(self):
        self.old = os.getcwd()
        self.tmp = tempfile.mkdtemp(prefix="verif-c14-")
        os.chdir(self.tmp)
        return Env(self.tmp)

    def __exit__(self, *exc):
        os.chdir(self.old)
        shutil.rmtree(self.tmp, ignore_errors=True)
        return False


def run_shard(ctx):
    idx = 0
    with Workdir() as env:
        while ctx.more():
            case = gen_case(ctx.rng, ctx.tier, idx, ctx.shard, ctx.nshards)
            idx += 1
            ctx.begin_case(case)
            nontrivial = False
            try:
                nontrivial = run_case(ctx, case, env)
            except Exception:
                ctx.violation(classify(case, "exception"), "unexpected-exception", {"traceback": fmt_exc()})
            ctx.end_case(nontrivial=nontrivial)


def replay(ctx, case):
    with Workdir() as env:
        ctx.begin_case(case)
        try:
            run_case(ctx, case, env)
        except Exception:
            ctx.violation(classify(case, "exception"), "unexpected-exception", {"traceback": fmt_exc()})
        ctx.end_case(nontrivial=True)
