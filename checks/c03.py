"""C03 — fit observables depend only on the current configuration, not on its history.

Shape: differential trace monitor.  The live fit executes a random word of mutators with reads of public
read-only properties placed anywhere.  At every read two freshly built twins are asked for the same
observable *first*:
  T1  replays the live fit's history with every read deleted (same mutators, same order);
  T2  is configured once from the configuration in normal form (data, surviving sources with their final
      enabled flags in declaration order, constraints, fixed/limited, parameter values) — only for histories
      without do_fit.
live != T1 is a read-dependence, T1 != T2 a mutator-history dependence; both violate the statement.
Further oracles: re-reading an earlier observable after another read gives the identical value; after
do_fit no graph node is left frozen.
"""
import io
from collections import OrderedDict

import numpy as np

from vlib import dsl, gen
from vlib.fitcase import Member, norm_op
from vlib.models import Model
from vlib.monitor import FaultyHandle, InjectedFault, Tol, allclose, fmt_exc, maxdiff, numerical_failure
from vlib.ref import COST_ALIASES, NEEDS_ERRORS, POISSON, pd_info

PROPERTY = "C03"
TIERS = {"quick": {"shards": 8, "budget_s": 60}, "thorough": {"shards": 16, "budget_s": 600}}
RULE = (
    "fit type (xy/indexed/hist/unbinned) x cost x dynamic_error_algorithm x backend x random word (<=12 ops quick / <=30 thorough) over "
    "add_error, add_matrix_error, disable/enable_error, simple+matrix constraints, set_(all_)parameter_values, fix/release/limit/unlimit, "
    "fit.data = raw arrays | container with own sources, do_fit, with reads of every public property / get_result_dict / report anywhere; "
    "non-trivial = the word reads an observable before a mutator that changes it and reads it again afterwards; distinct by case hash"
)
ASSUMPTIONS = [
    "configurations are restricted to positive-definite total covariance whenever a source is declared (reference-side check; other words are cut there)",
    "the reference for each observable is a fresh fit configured without intermediate reads and asked for that observable first (T1: same mutators; T2: normal form)",
    "quantities downstream of a minimisation are compared with OPTIM tolerances on a curated list of observables (parameter values 1e-2/5e-2 sigma, cost 1e-3/5e-3, "
    "model within 2e-2 of the total error, errors/covariances 3e-2 relative); everything else post-fit is only required to have the same type/shape",
    "random error names are never part of a comparison (names are given explicitly)",
]
ANCHORS = [
    ("kafe2.fit._base.fit", "FitBase._on_error_change"),
    ("kafe2.fit._base.fit", "FitBase._add_property_to_nexus"),
    ("kafe2.fit._base.fit", "FitBase.data"),
    ("kafe2.fit._base.fit", "FitBase.add_parameter_constraint"),
    ("kafe2.fit._base.fit", "FitBase.add_matrix_parameter_constraint"),
    ("kafe2.fit._base.fit", "FitBase._pre_fit_iteration"),
    ("kafe2.fit._base.fit", "FitBase._post_fit_iteration"),
    ("kafe2.fit._base.fit", "FitBase.do_fit"),
    ("kafe2.fit._base.fit", "FitBase.set_parameter_values"),
    ("kafe2.fit.xy.fit", "XYFit._set_new_data"),
    ("kafe2.fit.indexed.fit", "IndexedFit._set_new_data"),
    ("kafe2.fit.histogram.fit", "HistFit._set_new_data"),
    ("kafe2.fit.unbinned.fit", "UnbinnedFit._set_new_data"),
    ("kafe2.fit._base.container", "DataContainerBase._on_error_change"),
    ("kafe2.fit._base.model", "ParametricModelBaseMixin.parameters"),
    ("kafe2.core.fitters.nexus", "NodeBase.mark_for_update"),
    ("kafe2.core.fitters.nexus", "NodeBase.freeze"),
    ("kafe2.core.fitters.nexus", "NodeBase.unfreeze"),
    ("kafe2.core.fitters.nexus_fitter", "NexusFitter.reset_minimizer"),
]

MUTATORS = ["add_error", "add_matrix_error", "disable_error", "enable_error", "add_parameter_constraint", "add_matrix_parameter_constraint", "set_parameter_values", "set_all_parameter_values", "fix_parameter", "release_parameter", "limit_parameter", "unlimit_parameter", "set_data", "do_fit"]
# observables every user looks at: read more often than the long tail of properties
CORE_OBS = ["cost_function_value", "model", "y_model", "total_error", "total_cov_mat", "goodness_of_fit", "ndf", "chi2_probability", "report()", "get_result_dict()", "data_error", "y_data_error", "model_error", "y_model_error", "data_cov_mat", "parameter_values", "data", "did_fit", "parameter_errors", "x_total_error", "y_total_cov_mat", "total_cor_mat"]
SKIP_PROPS = {"asymmetric_parameter_errors"}  # re-minimises: belongs to C08's alphabet
# observables compared (with OPTIM tolerances) when a minimisation lies upstream
POSTFIT = {"parameter_values", "parameter_errors", "cost_function_value", "goodness_of_fit", "model", "y_model", "total_error", "total_cov_mat", "ndf", "did_fit", "chi2_probability", "parameter_names", "data", "x_data", "y_data", "data_size", "has_errors", "has_data_errors", "has_model_errors", "parameter_cov_mat", "parameter_cor_mat", "y_total_error", "x_total_error", "data_error", "y_data_error", "x_data_error"}


# functions of the current configuration only (no result of a minimisation enters): compared with a once-configured fit after do_fit as well
CONFIG_ONLY = {"cost_function_value", "model", "y_model", "total_error", "total_cov_mat", "total_cor_mat", "goodness_of_fit", "ndf", "chi2_probability", "data", "x_data", "y_data", "data_error", "y_data_error", "x_data_error", "model_error", "y_model_error", "x_model_error", "data_cov_mat", "y_data_cov_mat", "model_cov_mat", "y_model_cov_mat", "x_total_error", "y_total_error", "x_total_cov_mat", "y_total_cov_mat", "parameter_values", "has_errors", "has_data_errors", "has_model_errors"}


def floors(tier):
    return {
        "comparisons": {"live-vs-T1": 400, "T1-vs-T2": 150, "live-vs-T3": 40, "reread-unchanged": 100, "no-frozen-node-after-fit": 15},
        "ops": MUTATORS + ["read"],
        "reach": ["%s:%s" % a for a in ANCHORS],
        "sets": {"observables_read": 50, "mutator_read_bigrams": 100, "fit_configs": 10},
        "strata": ["xy", "indexed", "hist", "unbinned", "iterative", "nonlinear", "iminuit", "scipy", "read-before-and-after-mutator", "do_fit-failed-half-way"],
        "distinct_nontrivial": 60,
    }


# ------------------------------------------------------------------ observables
_PROPS = {}


def observables(fit):
    t = type(fit)
    if t not in _PROPS:
        names = [n for n in dir(t) if not n.startswith("_") and isinstance(getattr(t, n, None), property) and n not in SKIP_PROPS]
        _PROPS[t] = sorted(names) + ["get_result_dict()", "report()"]
    return _PROPS[t]


def read_obs(fit, name):
    """returns ('ok', normalised value) or ('raise', exception type name)"""
    try:
        if name == "get_result_dict()":
            v = fit.get_result_dict()
        elif name == "report()":
            s = io.StringIO()
            fit.report(output_stream=s)
            v = s.getvalue()
        else:
            v = getattr(fit, name)
        return ("ok", normalise(v))
    except Exception as e:
        return ("raise", type(e).__name__)


def normalise(v, depth=0):
    if depth > 6:
        return ("deep",)
    if v is None or isinstance(v, (bool, str)):
        return v
    if isinstance(v, (int, np.integer)):
        return int(v)
    if isinstance(v, (float, np.floating)):
        return float(v)
    if isinstance(v, np.ndarray):
        if v.dtype == object:
            return [normalise(x, depth + 1) for x in v.tolist()]
        return np.array(v, dtype=float, copy=True)
    if isinstance(v, (dict, OrderedDict)):
        return {str(k): normalise(x, depth + 1) for k, x in v.items()}
    if isinstance(v, (list, tuple)):
        return [normalise(x, depth + 1) for x in v]
    if isinstance(v, np.matrix):
        return np.array(v, dtype=float)
    return ("object", type(v).__name__)


def same(a, b, rtol, atol):
    """deep comparison of normalised values; returns (ok, why)"""
    if isinstance(a, tuple) and len(a) == 2 and a[0] in ("ok", "raise") and isinstance(b, tuple) and len(b) == 2 and b[0] in ("ok", "raise"):
        if a[0] != b[0]:
            return False, "one raised (%s) the other returned" % (a[1] if a[0] == "raise" else b[1])
        if a[0] == "raise":
            return (a[1] == b[1]), "exception types %s vs %s" % (a[1], b[1])
        return same(a[1], b[1], rtol, atol)
    if isinstance(a, np.ndarray) or isinstance(b, np.ndarray):
        if not (isinstance(a, np.ndarray) and isinstance(b, np.ndarray)):
            return False, "array vs %s" % type(b if isinstance(a, np.ndarray) else a).__name__
        if a.shape != b.shape:
            return False, "shapes %s vs %s" % (a.shape, b.shape)
        sc = max(float(np.max(np.abs(a))) if a.size else 0.0, float(np.max(np.abs(b))) if b.size else 0.0)
        if not np.isfinite(sc):
            sc = 1.0
        ok = allclose(a, b, 0.0, rtol * sc + atol)
        return ok, "maxdiff %.3g (scale %.3g)" % (maxdiff(a, b), sc)
    if isinstance(a, float) or isinstance(b, float):
        if a is None or b is None or isinstance(a, (str, tuple, list, dict)) or isinstance(b, (str, tuple, list, dict)):
            return False, "float vs %r" % (b if isinstance(a, float) else a,)
        fa, fb = float(a), float(b)
        if np.isnan(fa) and np.isnan(fb):
            return True, ""
        if fa == fb:
            return True, ""
        ok = abs(fa - fb) <= rtol * max(abs(fa), abs(fb)) + atol
        return ok, "diff %.3g" % abs(fa - fb)
    if isinstance(a, dict) and isinstance(b, dict):
        if set(a) != set(b):
            return False, "keys %s vs %s" % (sorted(a), sorted(b))
        for k in a:
            ok, why = same(a[k], b[k], rtol, atol)
            if not ok:
                return False, "[%s] %s" % (k, why)
        return True, ""
    if isinstance(a, list) and isinstance(b, list):
        if len(a) != len(b):
            return False, "lengths %d vs %d" % (len(a), len(b))
        for i, (x, y) in enumerate(zip(a, b)):
            ok, why = same(x, y, rtol, atol)
            if not ok:
                return False, "[%d] %s" % (i, why)
        return True, ""
    if isinstance(a, str) and isinstance(b, str) and rtol > 0:
        return True, ""  # texts are compared only in the exact class
    return (a == b), "%r vs %r" % (a, b)


# ------------------------------------------------------------------ generation
def gen_case(rng, tier, idx, shard, nshards):
    gi = idx * nshards + shard
    ftype = ["xy", "indexed", "hist", "unbinned"][gi % 4] if gi < 48 else str(rng.choice(["xy", "indexed", "hist", "unbinned"], p=[0.45, 0.25, 0.2, 0.1]))
    minimizer = ["iminuit", "scipy"][(gi // 4) % 2]
    dea = ["nonlinear", "iterative"][(gi // 8) % 2]
    if ftype == "unbinned":
        spec = gen.gen_unbinned_spec(rng, n=int(rng.integers(10, 30)))
    else:
        cost = str(rng.choice(["chi2", "chi2", "chi2", "chi2_pointwise", "nll_gaussian", "nll_poisson", "gauss_approximation", "chi2_fast", "chi2_no_errors"]))
        counts = COST_ALIASES[cost] in POISSON
        if ftype == "xy":
            spec = gen.gen_xy_spec(rng, family=str(rng.choice(["poly1", "poly2", "exponential", "trig", "gausspeak"])), cost=cost, counts=counts, n=int(rng.integers(5, 9)))
        elif ftype == "indexed":
            spec = gen.gen_indexed_spec(rng, family=str(rng.choice(["poly1", "poly2", "exponential", "trig"])), cost=cost, counts=counts, n=int(rng.integers(5, 9)))
        else:
            spec = gen.gen_hist_spec(rng, cost=cost, n_bins=int(rng.integers(4, 8)), n_entries=int(rng.integers(40, 120)))
    spec["minimizer"] = minimizer
    spec["dea"] = dea
    L = int(rng.integers(5, 13 if tier == "quick" else 31))
    case = {"property": "C03", "spec": spec, "word_seed": int(rng.integers(0, 2**31)), "n_ops": L}
    r, t = gi // (4 * len(MUTATORS)), (gi // 4) % len(MUTATORS)
    if r < 4:
        # stratified templates, one per (fit type x mutator kind) and round: read core observables, mutate, read them again.
        # Odd rounds put a minimisation between the setup and the first reads: whatever do_fit selects or caches (cost node,
        # frozen nodes, minimiser state) must not survive the mutator.  Backend and algorithm alternate independently of the kind.
        case["template"] = MUTATORS[t]
        case["round"] = r
        spec["minimizer"] = ["iminuit", "scipy"][(t + r // 2) % 2]
        spec["dea"] = ["nonlinear", "iterative"][(t // 2 + r // 4) % 2]
        if r % 2 == 1:
            case["after_fit"] = True
            if COST_ALIASES.get(spec.get("cost")) in NEEDS_ERRORS or spec.get("cost") == "chi2":
                case["first_source_uncorrelated"] = bool(rng.random() < 0.7)
    return case


def make_op(kind, rng, case, ref, state, n_do_fit):
    """concrete op of the given kind for the current declared state, or None if not applicable"""
    spec = case["spec"]
    ftype = spec["type"]
    m = ref.model
    n = ref.n
    fid = COST_ALIASES.get(spec.get("cost"), "unbinned")
    if kind in ("add_error", "add_matrix_error"):
        if ftype == "unbinned":
            return None
        k = state["n_src"]
        state["n_src"] += 1
        force = {"kind": "simple" if kind == "add_error" else "matrix"}
        if not ref.sources and fid in NEEDS_ERRORS:
            force["axis"] = "y"
        return gen.gen_source(rng, n, ftype, "e%d" % k, yscale=float(np.mean(np.abs(ref.d)) + 0.5), force=force, allow_model=True, allow_x=(ftype == "xy" and len(ref.sources) > 0))
    if kind == "disable_error":
        en = [s["name"] for s in ref.sources if s["enabled"]]
        # keep the first enabled source so that the total stays positive definite
        return ["disable_error", en[int(rng.integers(1, len(en)))]] if len(en) >= 2 else None
    if kind == "enable_error":
        dis = [s["name"] for s in ref.sources if not s["enabled"]]
        return ["enable_error", dis[int(rng.integers(0, len(dis)))]] if dis else None
    if kind == "add_parameter_constraint":
        return gen.gen_constraint(rng, m.pnames, list(ref.p), force_kind="simple")
    if kind == "add_matrix_parameter_constraint":
        return gen.gen_constraint(rng, m.pnames, list(ref.p), force_kind="matrix") if len(m.pnames) >= 2 else None
    if kind == "set_parameter_values":
        k = int(rng.integers(1, len(m.pnames) + 1))
        idx = rng.choice(len(m.pnames), size=k, replace=False)
        vals = {m.pnames[int(i)]: float(np.round(m.defaults[int(i)] * rng.uniform(0.85, 1.15) + rng.uniform(-0.02, 0.02), 5)) for i in idx if m.pnames[int(i)] not in ref.fixed}
        return ["set_parameter_values", vals] if vals else None
    if kind == "set_all_parameter_values":
        vals = gen.perturbed_params(rng, m, 0.1)
        op = ["set_all_parameter_values", [float(ref.fixed.get(nm, v)) for nm, v in zip(m.pnames, vals)]]
        if rng.random() < 0.5:
            op.append("same-array")  # handed over in one re-used numpy array (changed in place between calls), as a scan loop does
        return op
    free = [nm for nm in m.pnames if nm not in ref.fixed]
    if kind == "fix_parameter":
        if len(free) <= 1:
            return None
        nm = free[int(rng.integers(0, len(free)))]
        v = None if rng.random() < 0.5 else float(np.round(m.defaults[m.pnames.index(nm)] * rng.uniform(0.9, 1.1), 5))
        return ["fix_parameter", nm, v]
    if kind == "release_parameter":
        return ["release_parameter", sorted(ref.fixed)[int(rng.integers(0, len(ref.fixed)))]] if ref.fixed else None
    if kind == "limit_parameter":
        nm = m.pnames[int(rng.integers(0, len(m.pnames)))]
        c = float(ref.p[m.pnames.index(nm)])
        w = abs(c) * 3.0 + 1.0
        return ["limit_parameter", nm, float(np.round(c - w, 4)), float(np.round(c + w, 4))]
    if kind == "unlimit_parameter":
        if ref.limits and rng.random() < 0.8:
            return ["unlimit_parameter", sorted(ref.limits)[int(rng.integers(0, len(ref.limits)))]]
        # removing the limits of a parameter that has none: a no-op, for every backend
        return ["unlimit_parameter", m.pnames[int(rng.integers(0, len(m.pnames)))]]
    if kind == "set_data":
        return gen_set_data(rng, case, ref)
    if kind == "do_fit":
        if n_do_fit >= 2:
            return None
        # now and then the minimisation fails half way (the cost function raises at its k-th evaluation): whatever do_fit pins for the
        # duration of the minimisation must be released all the same
        return ["do_fit"] if rng.random() > 0.25 else ["do_fit", {"fail_at": int(rng.choice([3, 8, 15, 30]))}]
    raise KeyError(kind)


KIND_WEIGHTS = [("add_error", 5), ("add_matrix_error", 4), ("disable_error", 6), ("enable_error", 6), ("add_parameter_constraint", 5), ("add_matrix_parameter_constraint", 3), ("set_parameter_values", 10), ("set_all_parameter_values", 4), ("fix_parameter", 4), ("release_parameter", 3), ("limit_parameter", 3), ("unlimit_parameter", 2), ("set_data", 4), ("do_fit", 3)]


def choose_op(rng, case, ref, state, n_do_fit):
    """state-dependent op generator; returns an op"""
    spec = case["spec"]
    ftype = spec["type"]
    fid = COST_ALIASES.get(spec.get("cost"), "unbinned")
    if ftype != "unbinned" and fid in NEEDS_ERRORS and not any(s["enabled"] and gen.norm_axis(s.get("axis")) != "x" for s in ref.sources):
        # costs that need uncertainties are only defined once a y source is declared: declare one first
        k = state["n_src"]
        state["n_src"] += 1
        return gen.gen_source(rng, ref.n, ftype, "e%d" % k, yscale=float(np.mean(np.abs(ref.d)) + 0.5), force={"axis": "y", "kind": "simple", "shape": "vec"}, allow_model=True, allow_x=False)
    if rng.random() < 0.42:
        return ["read", None]  # observable chosen by the caller (needs the live fit's property list)
    kinds = [k for k, _ in KIND_WEIGHTS]
    w = np.array([x for _, x in KIND_WEIGHTS], dtype=float)
    for _ in range(6):
        kind = str(rng.choice(kinds, p=w / w.sum()))
        op = make_op(kind, rng, case, ref, state, n_do_fit)
        if op is not None:
            return op
    return ["read", None]


def gen_set_data(rng, case, ref):
    spec = case["spec"]
    ftype = spec["type"]
    fid = COST_ALIASES.get(spec.get("cost"), "unbinned")
    counts = fid in POISSON
    # templates: the replacement that exercises most of the graph (new support points, container with y and x sources)
    hard = bool(case.get("template")) and ftype == "xy" and fid in NEEDS_ERRORS
    as_container = bool(hard or rng.random() < 0.5)
    ns = {}
    if ftype in ("xy", "indexed"):
        y = ref.model.f(ref.x, gen.perturbed_params(rng, ref.model, 0.1))
        if counts:
            y = rng.poisson(np.clip(np.abs(y) * 4.0 + 1.0, 0.5, 200.0)).astype(float)
        else:
            y = y + rng.normal(size=ref.n) * 0.1 * (np.abs(y).mean() + 0.1)
        y = [float(np.round(v, 5)) for v in y]
        if ftype == "xy":
            ns = {"x": [float(v) for v in ref.x], "y": y}
            if hard or rng.random() < 0.6:
                # new support points as well (same number, same sign/order pattern): every node derived from x must follow
                xn = np.asarray(ref.x, dtype=float) + rng.uniform(0.05, 0.6, size=ref.n)
                yn = ref.model.f(xn, gen.perturbed_params(rng, ref.model, 0.1))
                if counts:
                    yn = rng.poisson(np.clip(np.abs(yn) * 4.0 + 1.0, 0.5, 200.0)).astype(float)
                else:
                    yn = yn + rng.normal(size=ref.n) * 0.1 * (np.abs(yn).mean() + 0.1)
                if np.all(np.isfinite(yn)):
                    ns = {"x": [float(np.round(v, 4)) for v in xn], "y": [float(np.round(v, 5)) for v in yn]}
        else:
            ns = {"data": y}
    elif ftype == "hist":
        ent = rng.choice(ref.entries, size=max(5, int(len(ref.entries) * rng.uniform(0.6, 1.0))), replace=True)
        ns = {"entries": [float(v) for v in ent]}
        as_container = True
    else:
        ns = {"data": [float(v) for v in rng.choice(ref.d, size=len(ref.d), replace=True)]}
    if as_container and ftype != "unbinned":
        ns["as_container"] = True
        srcs = []
        need = fid in NEEDS_ERRORS
        for k in range(2 if hard else int(rng.integers(1 if need else 0, 3))):
            on_x = ftype == "xy" and fid in NEEDS_ERRORS and k > 0 and (hard or rng.random() < 0.5)
            op = gen.gen_source(rng, ref.n, ftype, "c%d_%d" % (int(rng.integers(0, 10**6)), k), yscale=float(np.mean(np.abs(ns.get("y") or ns.get("data") or [10.0])) + 0.5), force={"axis": "x" if on_x else "y", "reference": "data"}, allow_model=False, allow_x=on_x)
            a = dict(op[1])
            a["kind"] = "simple" if op[0] == "add_error" else "matrix"
            a["axis"] = gen.norm_axis(a.get("axis")) if ftype == "xy" else None
            srcs.append(a)
        ns["container_sources"] = srcs
    elif as_container:
        ns["as_container"] = True
    return ["set_data", ns]


# ------------------------------------------------------------------ twins
def do_fit_op(fit, op):
    """do_fit, optionally with a cost function that raises at its k-th evaluation.  Returns 'ok' | 'failed' (injected failure surfaced)."""
    k = op[1].get("fail_at") if len(op) > 1 and isinstance(op[1], dict) else None
    if not k:
        fit.do_fit()
        return "ok"
    mini = fit._fitter.minimizer
    genuine = mini._func_handle
    mini._func_handle = FaultyHandle(genuine, k)
    try:
        fit.do_fit()
        return "ok"
    except InjectedFault:
        return "failed"
    finally:
        mini._func_handle = genuine


def build_T1(case, mutators):
    mb = Member(case["spec"])
    for op in mutators:
        if op[0] == "do_fit":
            do_fit_op(mb.fit, op)
            mb.sync_from_fit()
        else:
            mb.apply(op)
    return mb


def build_T2(case, ref):
    """normal form: constructed with the current data, configured once, no toggling"""
    spec = dict(case["spec"])
    if spec["type"] == "xy":
        spec["x"], spec["y"] = [float(v) for v in ref.x], [float(v) for v in ref.d]
    elif spec["type"] == "indexed":
        spec["data"] = [float(v) for v in ref.d]
    elif spec["type"] == "hist":
        spec["entries"] = [float(v) for v in ref.entries]
    else:
        spec["data"] = [float(v) for v in ref.d]
    mb = Member(spec)
    for s in ref.sources:
        a = {k: v for k, v in s.items() if k not in ("kind", "enabled")}
        if s["kind"] == "simple":
            mb.apply(["add_error", a])
        else:
            mb.apply(["add_matrix_error", a])
    for s in ref.sources:
        if not s["enabled"]:
            mb.apply(["disable_error", s["name"]])
    pn = ref.model.pnames
    for c in ref.constraints:
        if c["kind"] == "simple":
            mb.apply(["add_parameter_constraint", {"name": pn[c["index"]], "value": c["value"], "uncertainty": c["uncertainty"], "relative": c.get("relative", False)}])
        else:
            mb.apply(["add_matrix_parameter_constraint", {"names": [pn[i] for i in c["indices"]], "values": c["values"], "matrix": c["matrix"], "matrix_type": c["matrix_type"], "uncertainties": c.get("uncertainties"), "relative": c.get("relative", False)}])
    mb.apply(["set_all_parameter_values", [float(v) for v in ref.p]])
    for nm in ref.fixed:
        mb.apply(["fix_parameter", nm, None])
    for nm, (lo, hi) in ref.limits.items():
        mb.apply(["limit_parameter", nm, lo, hi])
    return mb


def admissible(mb):
    try:
        return mb.admissible()
    except Exception:
        return False


# ------------------------------------------------------------------ comparison policy
def tolerance_for(obs, live, has_fit, minimizer):
    """(rtol, atol, compare?) for live-vs-twin comparisons"""
    if not has_fit:
        return 1e-9, 1e-12, True
    if obs not in POSTFIT:
        return None, None, False
    loose = 5.0 if minimizer == "scipy" else 1.0
    return 3e-2 * loose, 1e-3 * loose, True


def classify_t2(t1, t2):
    """open finding: a fit created with cost 'chi2' and no uncertainties uses the no-errors chi2 implicitly and switches to the
    covariance chi2 when the first source appears; when the data (and with them all sources) are replaced by data without sources
    it does not switch back.  Signature: the replayed fit has left the implicit mode, the normal-form fit is in it, and the
    final configuration declares no source."""
    try:
        if t1.spec.get("cost") == "chi2" and not t1.ref.sources and t2.fit._implicit_no_errors and not t1.fit._implicit_no_errors:
            return "C03/implicit-no-errors-chi2-not-restored-after-data-without-sources"
    except Exception:
        pass
    return None


def compare(ctx, label, obs, a, b, live_fit, has_fit, minimizer, detail, key=None):
    rtol, atol, do = tolerance_for(obs, live_fit, has_fit, minimizer)
    if not do:
        # post-fit, not on the curated list: only the outcome class (returned / raised) must agree
        ok = a[0] == b[0]
        ctx.check(label + ".outcome-class", ok, lambda: dict(detail, a=a, b=b))
        return ok
    if has_fit and a[0] == "ok" and b[0] == "ok" and obs in ("parameter_errors", "parameter_cov_mat", "parameter_cor_mat"):
        try:
            va, vb = np.asarray(a[1], dtype=float), np.asarray(b[1], dtype=float)
            if va.shape == vb.shape and not (np.all(np.isfinite(va)) and np.all(np.isfinite(vb))):
                # a numerical Hessian that is not positive definite (degenerate minimum): its entries are rounding noise on either side
                ctx.discard("postfit-uncertainties-not-finite-degenerate-minimum")
                return True
        except Exception:
            pass
    if has_fit and a[0] == "ok" and b[0] == "ok" and obs in ("parameter_values",):
        try:
            sig = np.array(live_fit.parameter_errors, dtype=float)
            sig = np.where(sig > 0, sig, np.abs(a[1]) + 1.0)
            tol = (5e-2 if minimizer == "scipy" else 1e-2) * sig
            ok = bool(np.all(np.abs(a[1] - b[1]) <= tol + 1e-12))
            ctx.check(label, ok, lambda: dict(detail, live=a[1], twin=b[1], sigma=sig))
            return ok
        except Exception:
            pass
    if has_fit and obs in ("model", "y_model") and a[0] == "ok" and b[0] == "ok":
        try:
            te = np.array(live_fit.total_error, dtype=float) if live_fit.has_errors else np.abs(a[1][-1] if a[1].ndim == 2 else a[1]) * 0.05 + 0.05
            ya = a[1][-1] if a[1].ndim == 2 else a[1]
            yb = b[1][-1] if b[1].ndim == 2 else b[1]
            ok = bool(np.all(np.abs(ya - yb) <= 5e-2 * np.where(te > 0, te, 1.0) * (5.0 if minimizer == "scipy" else 1.0) + 1e-9))
            ctx.check(label, ok, lambda: dict(detail, live=a[1], twin=b[1]))
            return ok
        except Exception:
            pass
    ok, why = same(a, b, rtol, atol)
    ctx.check(label, ok, lambda: dict(detail, why=why, live=a, twin=b, rtol=rtol, atol=atol), key=key)
    return ok


# ------------------------------------------------------------------ execution
def run_case(ctx, case):
    ctx.reseed_legacy()
    spec = case["spec"]
    rng = np.random.default_rng(case["word_seed"])
    ctx.stratum(spec["type"])
    ctx.stratum(spec.get("dea", "nonlinear"))
    ctx.stratum(spec["minimizer"])
    ctx.add_to_set("fit_configs", "%s/%s/%s/%s" % (spec["type"], spec.get("cost"), spec.get("dea"), spec["minimizer"]))
    live = Member(spec)
    obs_names = observables(live.fit)
    mutators = []
    words = case.get("ops")
    executed = []
    case["ops"] = executed
    state = {"n_src": 0}
    n_do_fit = 0
    has_fit = False
    mut_count = 0
    last_read = {}  # obs -> (value, mut_count)
    read_before = {}  # obs -> mut_count at first read
    nontrivial = False
    prev_kind = None
    tmpl, tpos = [], [0]
    k = 0
    while True:
        if words is not None:
            if k >= len(words):
                break
            op = words[k]
        elif case.get("template"):
            # [setup source if needed] read x3, (prerequisite mutator), mutator of the template kind, same reads again
            if not tmpl:
                core = [o for o in CORE_OBS if o in obs_names] if case.get("round", 0) < 2 else list(obs_names)
                picks = ["cost_function_value", "get_result_dict()"] + [core[int(i)] for i in rng.choice(len(core), size=4, replace=False) if core[int(i)] not in ("cost_function_value", "get_result_dict()")]
                pre = {"enable_error": ["add_error", "add_error", "disable_error"], "disable_error": ["add_error", "add_error"], "release_parameter": ["fix_parameter"], "unlimit_parameter": ["limit_parameter"], "set_all_parameter_values": ["set_all_parameter_values"]}.get(case["template"], [])
                if case.get("after_fit") and case["template"] != "do_fit":
                    pre = pre + ["do_fit"]
                if case.get("after_fit"):
                    # results of the minimiser last, i.e. after reads that may have made the backend compute something
                    picks = [o for o in picks if o != "parameter_errors"] + ["parameter_errors"]
                tmpl.extend([("setup", None)] + [("mut", p) for p in pre] + [("read", o) for o in picks] + [("mut", case["template"])] + [("read", o) for o in picks])
            if tpos[0] >= len(tmpl):
                break
            what, arg = tmpl[tpos[0]]
            tpos[0] += 1
            if what == "setup":
                op = choose_op(rng, case, live.ref, state, n_do_fit)
                if op[0] == "read" or op[0] not in ("add_error",):
                    continue  # no setup needed
            elif what == "read":
                op = ["read", arg]
            else:
                op = make_op(arg, rng, case, live.ref, state, n_do_fit)
                if op is None:
                    continue
            if case["template"] == "set_all_parameter_values" and op[0] == "set_all_parameter_values" and len(op) == 2:
                op.append("same-array")  # both hand-overs of the template through one re-used array
            if case.get("first_source_uncorrelated") and op[0] == "add_error" and not live.ref.sources:
                op[1]["corr"] = 0.0  # the fit then runs on an uncorrelated total (kafe2 selects a pointwise cost node for it)
        else:
            if k >= case["n_ops"]:
                break
            op = choose_op(rng, case, live.ref, state, n_do_fit)
            if op[0] == "read":
                # half of the reads return to an observable that was read earlier (cache-then-mutate-then-read is the hard case)
                if read_before and rng.random() < 0.5:
                    prev = sorted(read_before)
                    op = ["read", prev[int(rng.integers(0, len(prev)))]]
                elif rng.random() < 0.45:
                    core = [o for o in CORE_OBS if o in obs_names]
                    op = ["read", core[int(rng.integers(0, len(core)))]]
                else:
                    op = ["read", obs_names[int(rng.integers(0, len(obs_names)))]]
        k += 1
        executed.append(op)
        ctx.op(op[0])
        nv = sum(ctx._wit_per_key.values())
        if op[0] == "read":
            obs = op[1]
            ctx.add_to_set("observables_read", obs)
            if prev_kind and prev_kind != "read":
                ctx.add_to_set("mutator_read_bigrams", "%s>%s" % (prev_kind, obs))
            if obs in read_before and read_before[obs] < mut_count:
                nontrivial = True
                ctx.stratum("read-before-and-after-mutator")
            read_before.setdefault(obs, mut_count)
            if not admissible(live):
                ctx.discard("configuration-not-admissible-at-read")
                break
            a = read_obs(live.fit, obs)
            detail = {"op_index": k - 1, "observable": obs, "mutators_so_far": len(mutators)}
            # T1: same mutators, no reads, this observable first
            try:
                t1 = build_T1(case, mutators)
            except Exception as e:
                if numerical_failure(e):
                    ctx.discard("twin-do_fit-ill-posed")
                    break
                ctx.violation(None, "T1.build.no-exception", dict(detail, traceback=fmt_exc()))
                break
            b = read_obs(t1.fit, obs)
            ok1 = compare(ctx, "live-vs-T1", obs, a, b, live.fit, has_fit, spec["minimizer"], detail)
            if not has_fit and ok1:
                try:
                    t2 = build_T2(case, live.ref)
                    c = read_obs(t2.fit, obs)
                    compare(ctx, "T1-vs-T2", obs, b, c, t1.fit, False, spec["minimizer"], detail, key=lambda: classify_t2(t1, t2))
                except Exception:
                    ctx.violation(None, "T2.build.no-exception", dict(detail, traceback=fmt_exc()))
                    break
            if has_fit and ok1 and obs in CONFIG_ONLY:
                # T3: the quantities that are functions of the configuration alone (sources, constraints, data, parameter values)
                # are those of a fit configured once with the same values — also when a minimisation lies in the history
                try:
                    t3 = build_T2(case, live.ref)
                    c = read_obs(t3.fit, obs)
                    compare(ctx, "live-vs-T3", obs, a, c, live.fit, False, spec["minimizer"], detail, key=lambda: classify_t2(live, t3))
                except Exception:
                    ctx.violation(None, "T3.build.no-exception", dict(detail, traceback=fmt_exc()))
                    break
            # reading never changes another quantity: re-read an earlier observable read since the last mutator
            cands = sorted(o for o, (v, mc) in last_read.items() if mc == mut_count and o != obs)
            for o2 in cands:
                v2 = read_obs(live.fit, o2)
                ok, why = same(last_read[o2][0], v2, 0.0, 0.0) if not has_fit else same(last_read[o2][0], v2, 1e-12, 1e-300)
                if not ctx.check("reread-unchanged", ok, lambda: {"op_index": k - 1, "read": obs, "reread": o2, "why": why, "before": last_read[o2][0], "after": v2}):
                    break
            last_read[obs] = (a, mut_count)
        else:
            mutators.append(op)
            mut_count += 1
            try:
                if op[0] == "do_fit":
                    if not admissible(live):
                        ctx.discard("do_fit-skipped-inadmissible")
                        mutators.pop()
                        executed.pop()
                        continue
                    try:
                        if do_fit_op(live.fit, op) == "failed":
                            ctx.stratum("do_fit-failed-half-way")
                    except Exception as e:
                        # ill-posed problem (singular / nan numerical Hessian at the optimum): not a statement about history dependence
                        if numerical_failure(e):
                            ctx.discard("do_fit-ill-posed")
                            executed.pop()
                            break
                        raise
                    live.sync_from_fit()
                    n_do_fit += 1
                    has_fit = True
                    frozen = [nm for nm, nd in live.fit._nexus._nodes.items() if getattr(nd, "_frozen", False)]
                    ctx.check("no-frozen-node-after-fit", not frozen, {"frozen": frozen, "op_index": k - 1})
                else:
                    live.apply(op)
            except Exception:
                ctx.violation(None, "mutator.no-exception", {"op": op, "traceback": fmt_exc()})
                break
        prev_kind = op[0]
        if sum(ctx._wit_per_key.values()) != nv:
            break
    return nontrivial


def run_shard(ctx):
    idx = 0
    while ctx.more():
        case = gen_case(ctx.rng, ctx.tier, idx, ctx.shard, ctx.nshards)
        idx += 1
        ctx.begin_case(case)
        nontrivial = False
        try:
            nontrivial = run_case(ctx, case)
        except Exception:
            ctx.violation(None, "unexpected-exception", {"traceback": fmt_exc()})
        ctx.end_case(nontrivial=nontrivial)


def replay(ctx, case):
    ctx.begin_case(case)
    case = dict(case)
    try:
        run_case(ctx, case)
    except Exception:
        ctx.violation(None, "unexpected-exception", {"traceback": fmt_exc()})
    ctx.end_case(nontrivial=True)
