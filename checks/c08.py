"""C08 — inspecting results never moves the fit.

Shape: trace monitor with snapshots after every query.  After do_fit a random word (with repetition) over the
post-fit queries is executed; a snapshot S = (parameter values, cost, symmetric errors, did_fit, the minimizer's
own parameter values, fixed, limited) is taken before the word and after every query:
  * S stays within the minimizer tolerance of S0 (a query may re-converge),
  * did_fit / fixed / limited identical,
  * the values held by the minimizer == the values in the graph (they are written back, not re-derived),
  * asking the same question twice in a row gives the same answer.
"""
import io
import os
import shutil
import tempfile

import numpy as np

from vlib import gen
from vlib.fitcase import Member
from vlib.models import Model
from vlib.monitor import FaultyHandle, InjectedFault, OpTimeout, fmt_exc, time_limit

PROPERTY = "C08"
TIERS = {"quick": {"shards": 8, "budget_s": 45}, "thorough": {"shards": 16, "budget_s": 600}}
RULE = (
    "fitted problem (xy/indexed/hist linear + nonlinear families, fixed and limited parameters, both backends) x random word "
    "(<=6 quick / <=15 thorough queries, with repetition) over cov/cor matrices, hessian(+inv), asymmetric errors, profile (all argument shapes), "
    "contour, ContoursProfiler.get_profile/get_contours, error_band, report, get_result_dict, Plot.plot, to_file, save_state; "
    "non-trivial = word contains a re-minimising query (profile / contour / asymmetric errors) or the fit has fixed/limited parameters; distinct by case hash"
)
ASSUMPTIONS = [
    "drift tolerance w.r.t. the post-fit snapshot: |dp| <= 1e-2 sigma and |dcost| <= 1e-3 (iminuit), 5e-2 sigma / 5e-3 (scipy: BFGS with numerical gradient), errors within 3e-2 relative",
    "minimizer values vs graph values: <= 1e-12 relative (they are written back, not re-derived)",
    "queries that legitimately refuse (contour with < 2 free parameters) are part of the specification, not violations",
    "scipy contours (~5 s each) are sampled sparsely",
]
ANCHORS = [
    ("kafe2.core.minimizers.minimizer_base", "MinimizerBase._save_state"),
    ("kafe2.core.minimizers.minimizer_base", "MinimizerBase._load_state"),
    ("kafe2.core.minimizers.minimizer_base", "MinimizerBase.hessian"),
    ("kafe2.core.minimizers.minimizer_base", "MinimizerBase._calculate_asymmetric_parameter_errors"),
    ("kafe2.core.minimizers.minimizer_base", "MinimizerBase._get_profile_bound"),
    ("kafe2.core.minimizers.iminuit_minimizer", "MinimizerIMinuit._save_state"),
    ("kafe2.core.minimizers.iminuit_minimizer", "MinimizerIMinuit._load_state"),
    ("kafe2.core.minimizers.iminuit_minimizer", "MinimizerIMinuit.contour"),
    ("kafe2.core.minimizers.iminuit_minimizer", "MinimizerIMinuit.profile"),
    ("kafe2.core.minimizers.iminuit_minimizer", "MinimizerIMinuit._calculate_asymmetric_parameter_errors"),
    ("kafe2.core.minimizers.iminuit_minimizer", "MinimizerIMinuit.cov_mat"),
    ("kafe2.core.minimizers.scipy_optimize_minimizer", "MinimizerScipyOptimize._save_state"),
    ("kafe2.core.minimizers.scipy_optimize_minimizer", "MinimizerScipyOptimize._load_state"),
    ("kafe2.core.minimizers.scipy_optimize_minimizer", "MinimizerScipyOptimize.profile"),
    ("kafe2.core.minimizers.scipy_optimize_minimizer", "MinimizerScipyOptimize.contour"),
    ("kafe2.core.fitters.nexus_fitter", "NexusFitter._minimize"),
    ("kafe2.core.fitters.nexus_fitter", "NexusFitter.profile"),
    ("kafe2.core.fitters.nexus_fitter", "NexusFitter.contour"),
    ("kafe2.fit.tools.contours_profiler", "ContoursProfiler.get_profile"),
    ("kafe2.fit.tools.contours_profiler", "ContoursProfiler.get_contours"),
]

QUERIES = ["cov_mat", "cor_mat", "hessian", "hessian_inv", "asymmetric_errors", "profile_sigma", "profile_cl_arrows", "profile_lowhigh", "profile_default", "contour", "cp_get_profile", "cp_get_contours", "error_band", "report", "report_asym", "result_dict", "result_dict_asym", "plot", "to_file", "save_state"]
REMINIMISING = {"asymmetric_errors", "profile_sigma", "profile_cl_arrows", "profile_lowhigh", "profile_default", "contour", "cp_get_profile", "cp_get_contours", "report_asym", "result_dict_asym"}


CONTOUR_KWARGS = {}  # of the case being run
LAST_CONTOUR = []


def floors(tier):
    return {
        "comparisons": {"drift.parameter_values": 150, "drift.cost": 150, "drift.parameter_errors": 150, "did_fit": 150, "fixed-limited": 150, "minimizer==graph": 150, "idempotent": 40, "drift.after-failed-query": 10, "minimizer==graph.after-limit_parameter": 60, "minimizer==graph.after-unlimit_parameter": 15},
        "ops": [q for q in QUERIES],
        "reach": ["%s:%s" % a for a in ANCHORS],
        "sets": {"query_bigrams": 80},
        "strata": ["iminuit", "scipy", "fixed", "limited", "xy", "indexed", "hist", "fault-injected:iminuit", "fault-injected:scipy", "fault-injected-before-first-read:iminuit", "fault-injected-before-first-read:scipy", "iterative-dynamic-errors:iminuit", "iterative-dynamic-errors:scipy", "contour-algorithm:mncontour", "contour-algorithm:heuristic_grid", "contour-algorithm:beacon"],
        "distinct_nontrivial": 40,
    }


# ------------------------------------------------------------------ generation
def gen_case(rng, tier, idx, shard, nshards):
    gi = idx * nshards + shard
    minimizer = ["iminuit", "scipy"][gi % 2]
    ftype = ["xy", "xy", "indexed", "hist"][(gi // 2) % 4]
    # scipy contours are slow: only in 1 of 4 scipy cases (shifted by idx: every shard and every fit type gets some), and the
    # "beacon" algorithm (~15 s per contour on an idle machine for a straight line) in one of 8 of those; in the quick tier twice
    # per run, on a straight line
    keep_contour = minimizer == "scipy" and ((gi // 2) + idx) % 4 == 1
    ck = (idx // 4 + shard // 2) % 8
    if ck == 1 and tier == "quick" and idx >= 8:
        ck = 2
    cheap = keep_contour and ck == 1 and tier == "quick"
    if cheap:
        ftype = "xy"
    if ftype == "xy":
        fam = str(rng.choice(["poly1", "poly2", "exponential", "trig", "gausspeak", "logistic"], p=[0.25, 0.2, 0.2, 0.15, 0.1, 0.1]))
        if cheap:
            fam = "poly1"
        spec = gen.gen_xy_spec(rng, family=fam, cost="chi2", n=int(rng.integers(len(Model(fam).pnames) + 3, 12)), noise=0.05)
    elif ftype == "indexed":
        fam = str(rng.choice(["poly1", "poly2", "exponential", "trig"]))
        spec = gen.gen_indexed_spec(rng, family=fam, cost="chi2", n=int(rng.integers(len(Model(fam).pnames) + 3, 12)), noise=0.05)
    else:
        spec = gen.gen_hist_spec(rng, density=str(rng.choice(["normal", "expdens"])), cost="nll_poisson", n_bins=int(rng.integers(6, 10)), n_entries=int(rng.integers(150, 400)))
    spec["minimizer"] = minimizer
    # the iterative treatment of parameter-dependent uncertainties: its result is a fixed point, not the minimum of the cost the
    # backend sees, so every query that lets the backend minimise again is tempted to walk away from it
    spec["dea"] = "iterative" if (gi // 8) % 3 == 2 else "nonlinear"
    m = Model.from_spec(spec["model"])
    setup = []
    if ftype != "hist":
        n = len(spec.get("y") or spec["data"])
        ys = float(np.mean(np.abs(spec.get("y") or spec["data"])) + 0.5)
        setup.append(gen.gen_source(rng, n, ftype, "e0", yscale=ys, force={"axis": "y", "reference": "data", "kind": "simple", "shape": "vec", "relative": False, "corr": 0.0}))
        if rng.random() < 0.5:
            setup.append(gen.gen_source(rng, n, ftype, "e1", yscale=ys * 0.5, force={"axis": "y", "reference": "data"}, allow_model=False, allow_x=False))
        if ftype == "xy" and rng.random() < (0.7 if spec["dea"] == "iterative" else 0.25):
            setup.append(gen.gen_source(rng, n, ftype, "e2", xscale=0.05 if spec["dea"] != "iterative" else 0.2, force={"axis": "x", "reference": "data", "kind": "simple", "relative": False}))
        elif spec["dea"] == "iterative" and rng.random() < 0.7:
            setup.append(["add_error", dict({"err": float(np.round(rng.uniform(0.05, 0.15), 4)), "relative": True, "reference": "model", "corr": 0.0, "name": "e3"}, **({"axis": "y"} if ftype == "xy" else {}))])
    fixed, limited = {}, {}
    if len(m.pnames) >= 3 and rng.random() < 0.35:
        nm = m.pnames[int(rng.integers(0, len(m.pnames)))]
        fixed[nm] = float(m.defaults[m.pnames.index(nm)])
    if rng.random() < 0.35:
        cand = [q for q in m.pnames if q not in fixed]
        nm = cand[int(rng.integers(0, len(cand)))]
        c = float(m.defaults[m.pnames.index(nm)])
        w = abs(c) * 4.0 + 2.0
        limited[nm] = [float(np.round(c - w, 3)), float(np.round(c + w, 3))]
    L = int(rng.integers(2, 7 if tier == "quick" else 16))
    qs = [q for q in QUERIES if not (q == "error_band" and ftype != "xy")]
    if gi < 2 * len(QUERIES):
        first = QUERIES[(gi // 2) % len(QUERIES)]
        word = [first if first in qs else "cov_mat", first if first in qs else "cov_mat"]
        word += [str(rng.choice(qs)) for _ in range(max(0, L - 2))]
    else:
        word = [str(rng.choice(qs)) for _ in range(L)]
        # repetition: duplicate one query right after itself
        if len(word) >= 2 and rng.random() < 0.6:
            i = int(rng.integers(0, len(word)))
            word.insert(i, word[i])
    # scipy contours are slow: at most one per word, and only in 1 of 4 scipy cases
    if minimizer == "scipy":
        keep = keep_contour
        seen = False
        w2 = []
        for q in word:
            if q in ("contour", "cp_get_contours"):
                if not keep or seen:
                    q = "profile_default"
                seen = True
            w2.append(q)
        word = w2
        if keep and not seen:
            word[int(rng.integers(0, len(word)))] = "contour"
    case = {"property": "C08", "spec": spec, "setup": setup, "fixed": fixed, "limited": limited, "word": word, "arg_seed": int(rng.integers(0, 2**31))}
    if gi % 5 == 4:
        # fault injection: the cost function raises at its k-th evaluation during one query (a model function that raises far from
        # the optimum): the request has no answer, but the fit must be back where it was
        case["fault"] = {"index": int(rng.integers(0, len(word))), "call": int(rng.choice([1, 2, 3, 5, 8, 13, 21, 34, 55]))}
        if (gi // 10) % 2 == 1:
            case["fault"].update(early=True, query=EARLY_QUERIES[(gi // 20) % len(EARLY_QUERIES)], call=int(rng.choice([1, 2, 3, 5, 8, 13])))
    if minimizer == "scipy":
        # the scipy backend has two contour algorithms with their own exits; "beacon" takes ~15 s per contour
        case["contour_kwargs"] = [{}, {"algorithm": "beacon"}, {"iterations": 3}, {"initial_points": 2, "iterations": 2}, {}, {"iterations": 3}, {"iterations": 4, "area_scale_factor": 2.0}, {"initial_points": 3, "iterations": 1}][ck]
        if case["contour_kwargs"].get("algorithm") == "beacon" and "contour" in word:
            # rare and expensive: asked first, and not spent on a case whose query is made to fail
            word.remove("contour")
            word.insert(0, "contour")
            case.pop("fault", None)
    elif (gi // 8) % 2:
        case["contour_kwargs"] = {"numpoints": int(rng.integers(6, 30))}
    return case


# ------------------------------------------------------------------ queries
def summarize(v):
    """reduce a query answer to comparable plain data"""
    if v is None:
        return None
    if isinstance(v, np.ndarray):
        return np.array(v, dtype=float)
    if isinstance(v, (float, int, np.floating, np.integer)):
        return float(v)
    if isinstance(v, str):
        return v
    if isinstance(v, dict):
        return {str(k): summarize(x) for k, x in v.items()}
    if isinstance(v, (list, tuple)):
        return [summarize(x) for x in v]
    if hasattr(v, "xy_points") and hasattr(v, "grid_z"):
        return {"xy": summarize(v.xy_points), "gx": summarize(v.grid_x), "gy": summarize(v.grid_y), "gz": summarize(v.grid_z)}
    if hasattr(v, "cl") and hasattr(v, "sigma"):
        return {"cl": float(v.cl), "sigma": float(v.sigma)}
    return type(v).__name__


def similar(a, b, rtol, atol):
    if a is None or b is None:
        return a is None and b is None
    if isinstance(a, np.ndarray) and isinstance(b, np.ndarray):
        if a.shape != b.shape:
            return False
        if a.size == 0:
            return True
        # non-finite entries (cost infinite outside the model's domain) must be the same entries; the scale comes from the finite ones
        fin = np.isfinite(a) & np.isfinite(b)
        if not np.array_equal(np.isnan(a), np.isnan(b)) or not np.array_equal(np.where(np.isinf(a), np.sign(a), 0), np.where(np.isinf(b), np.sign(b), 0)):
            return False
        if not fin.any():
            return True
        sc = max(float(np.max(np.abs(a[fin]))), float(np.max(np.abs(b[fin]))), 1e-300)
        d = np.abs(a[fin] - b[fin])
        return bool(np.all(d <= rtol * sc + atol))
    if isinstance(a, float) and isinstance(b, float):
        if np.isnan(a) and np.isnan(b):
            return True
        if np.isinf(a) or np.isinf(b):
            return a == b
        return abs(a - b) <= rtol * max(abs(a), abs(b)) + atol
    if isinstance(a, dict) and isinstance(b, dict):
        return set(a) == set(b) and all(similar(a[k], b[k], rtol, atol) for k in a)
    if isinstance(a, list) and isinstance(b, list):
        return len(a) == len(b) and all(similar(x, y, rtol, atol) for x, y in zip(a, b))
    if isinstance(a, str) and isinstance(b, str):
        return True  # texts: numbers inside are covered by the drift clause
    return type(a) == type(b)


def diverged(v, limit=1e7):
    if isinstance(v, np.ndarray):
        return bool(v.size and np.nanmax(np.abs(np.where(np.isfinite(v), v, 0.0))) > limit)
    if isinstance(v, float):
        return np.isfinite(v) and abs(v) > limit
    if isinstance(v, dict):
        return any(diverged(x, limit) for x in v.values())
    if isinstance(v, (list, tuple)):
        return any(diverged(x, limit) for x in v)
    return False


def run_query(q, fit, rng, tmpdir, free):
    """execute one query; returns a summarised answer (or ('refused', type) for documented refusals)"""
    mini = fit._fitter.minimizer
    if q == "cov_mat":
        return summarize(fit.parameter_cov_mat)
    if q == "cor_mat":
        return summarize(fit.parameter_cor_mat)
    if q == "hessian":
        return summarize(mini.hessian)
    if q == "hessian_inv":
        return summarize(mini.hessian_inv)
    if q == "asymmetric_errors":
        return summarize(fit.asymmetric_parameter_errors)
    p1 = free[int(rng.integers(0, len(free)))]
    if q == "profile_sigma":
        return summarize(fit._fitter.profile(p1, sigma=float(rng.choice([1.0, 2.0])), size=int(rng.choice([7, 11])), subtract_min=bool(rng.random() < 0.5)))
    if q == "profile_cl_arrows":
        return summarize(fit._fitter.profile(p1, cl=float(rng.choice([0.68, 0.9, 0.95])), size=9, subtract_min=bool(rng.random() < 0.5), arrows=True))
    if q == "profile_lowhigh":
        v = float(fit.parameter_values[list(fit.parameter_names).index(p1)])
        e = float(fit.parameter_errors[list(fit.parameter_names).index(p1)])
        return summarize(fit._fitter.profile(p1, low=v - 1.5 * e, high=v + 1.5 * e, size=7, arrows=bool(rng.random() < 0.5)))
    if q == "profile_default":
        return summarize(fit._fitter.profile(p1, size=7))
    if q in ("contour", "cp_get_contours"):
        if len(free) < 2:
            try:
                fit._fitter.contour(p1, p1, sigma=1.0)
            except Exception as e:
                return ("refused", type(e).__name__)
            return ("refused", "none")
        others = [f for f in free if f != p1]
        p2 = others[int(rng.integers(0, len(others)))]
        kw = dict(CONTOUR_KWARGS)
        LAST_CONTOUR[:] = [kw.get("algorithm", "heuristic_grid" if type(fit._fitter.minimizer).__name__ == "MinimizerScipyOptimize" else "mncontour")]
        if q == "contour":
            return summarize(fit._fitter.contour(p1, p2, sigma=float(rng.choice([1.0, 2.0])), **kw))
        from kafe2.fit.tools.contours_profiler import ContoursProfiler

        cp = ContoursProfiler(fit, contour_sigma_values=(1.0,), contour_method_kwargs=kw or None)
        return summarize(cp.get_contours(p1, p2))
    if q == "cp_get_profile":
        from kafe2.fit.tools.contours_profiler import ContoursProfiler

        cp = ContoursProfiler(fit, profile_points=9)
        return summarize(cp.get_profile(p1))
    if q == "error_band":
        x = np.array(fit.x_model, dtype=float)
        return summarize(fit.error_band(np.linspace(x.min() - 0.5, x.max() + 0.5, 7)))
    if q in ("report", "report_asym"):
        s = io.StringIO()
        fit.report(output_stream=s, asymmetric_parameter_errors=(q == "report_asym"))
        return s.getvalue()
    if q in ("result_dict", "result_dict_asym"):
        return summarize(fit.get_result_dict(asymmetric_parameter_errors=(q == "result_dict_asym")))
    if q == "plot":
        import matplotlib.pyplot as plt
        from kafe2 import Plot

        pl = Plot(fit)
        pl.plot()
        plt.close("all")
        return "plotted"
    if q == "to_file":
        path = os.path.join(tmpdir, "fit.yml")
        fit.to_file(path)
        return "saved %d" % (os.path.getsize(path) > 0)
    if q == "save_state":
        path = os.path.join(tmpdir, "state.yml")
        fit.save_state(path)
        return "saved %d" % (os.path.getsize(path) > 0)
    raise KeyError(q)


def snapshot(fit):
    mini = fit._fitter.minimizer
    return {
        "p": np.array(fit.parameter_values, dtype=float),
        "cost": float(fit.cost_function_value),
        "err": np.array(fit.parameter_errors, dtype=float),
        "did_fit": bool(fit.did_fit),
        "mini_p": np.array(mini.parameter_values, dtype=float),
        "fixed": dict(fit._fitter.fixed_parameters),
        "limited": {k: tuple(v) for k, v in fit._fitter.limited_parameters.items()},
    }


EARLY_QUERIES = ["cov_mat", "cor_mat", "hessian", "hessian_inv", "parameter_errors", "result_dict", "report", "error_band", "asymmetric_errors", "profile_default"]


def early_fault(ctx, case, fit, names, free, minimizer):
    mini = fit._fitter.minimizer
    # do_fit() itself has asked for the uncertainties, so covariance / Hessian are cached; fixing and releasing a parameter leaves the fit
    # at its optimum (did_fit stays True) with cold caches, as after any configuration change that does not move the parameters
    try:
        fit.fix_parameter(free[0])
        fit.release_parameter(free[0])
    except Exception:
        ctx.discard("fix-release-failed")
        return False
    if not fit.did_fit:
        ctx.discard("fix-release-cleared-did_fit")
        return False
    # positions and cost as the graph holds them; none of these reads makes the backend compute anything
    p0 = np.array(fit.parameter_values, dtype=float)
    c0 = float(fit.cost_function_value)
    pm0 = np.array(mini.parameter_values, dtype=float)
    fixed0 = dict(fit._fitter.fixed_parameters)
    q = case["fault"]["query"]
    if q == "error_band" and case["spec"]["type"] != "xy":
        q = "cov_mat"
    ctx.op(q)
    genuine = mini._func_handle
    mini._func_handle = FaultyHandle(genuine, case["fault"]["call"], pm0)
    rng = np.random.default_rng(case["arg_seed"])
    tmpdir = tempfile.mkdtemp(prefix="verif-c08-")
    raised = None
    try:
        with time_limit(60.0):
            if q == "parameter_errors":
                fit.parameter_errors
            else:
                run_query(q, fit, rng, tmpdir, free)
    except InjectedFault as e:
        raised = e
    except OpTimeout:
        ctx.discard("query-timeout")
        return False
    except Exception:
        mini._func_handle = genuine
        ctx.discard("early-query-failed-otherwise")
        return False
    finally:
        mini._func_handle = genuine
        shutil.rmtree(tmpdir, ignore_errors=True)
    if raised is None:
        ctx.note("fault-not-reached-or-swallowed")
        return False
    ctx.stratum("fault-injected-before-first-read:" + minimizer)
    ctx.add_to_set("faulted_queries", "first:" + q)
    d = {"query": q, "fault": case["fault"], "first_request_after_do_fit": True}
    try:
        pg = np.array(fit.parameter_values, dtype=float)
        cg = float(fit.cost_function_value)
        pm = np.array(mini.parameter_values, dtype=float)
        err = np.array(fit.parameter_errors, dtype=float)  # the yardstick; computed only now, with the genuine cost function
    except Exception:
        ctx.violation(None, "state-readable-after-failed-query", dict(d, traceback=fmt_exc()))
        return True
    sig = np.where(np.isfinite(err) & (err > 0), err, np.abs(p0) + 1.0)
    ptol, ctol = (1e-2, 1e-3) if minimizer == "iminuit" else (5e-2, 5e-3)
    devg = np.abs(pg - p0) / sig
    ctx.check("drift.after-failed-query", bool(np.all(devg <= ptol)) and abs(cg - c0) <= ctol, lambda: dict(d, before=p0, after=pg, deviation_in_sigma=devg, tolerance=ptol, cost_before=c0, cost_after=cg))
    ctx.check("minimizer==graph.after-failed-query", bool(np.all(np.abs(pm - pg) <= 1e-12 * np.maximum(np.abs(pg), 1e-300) + 1e-300)), lambda: dict(d, minimizer=pm, graph=pg))
    ctx.check("fixed-limited.after-failed-query", dict(fit._fitter.fixed_parameters) == fixed0 and [bool(mini.is_fixed(n)) for n in names] == [n in fixed0 for n in names], lambda: dict(d, fixed_before=fixed0, fixed_after=dict(fit._fitter.fixed_parameters), minimizer_fixed=[bool(mini.is_fixed(n)) for n in names]))
    return True


def run_case(ctx, case):
    ctx.reseed_legacy()
    spec = case["spec"]
    minimizer = spec["minimizer"]
    ctx.stratum(minimizer)
    ctx.stratum(spec["type"])
    CONTOUR_KWARGS.clear()
    CONTOUR_KWARGS.update(case.get("contour_kwargs") or {})
    if spec.get("dea") == "iterative" and any(gen.norm_axis(o[1].get("axis")) == "x" or (o[1].get("relative") and o[1].get("reference") == "model") for o in case["setup"]):
        ctx.stratum("iterative-dynamic-errors:" + minimizer)
    mb = Member(spec, case["setup"])
    fit = mb.fit
    for n, v in case["fixed"].items():
        fit.fix_parameter(n, v)
        ctx.stratum("fixed")
    for n, (lo, hi) in case["limited"].items():
        fit.limit_parameter(n, lo, hi)
        ctx.stratum("limited")
    try:
        fit.do_fit()
    except Exception:
        ctx.discard("do_fit-failed")
        return False
    names = list(fit.parameter_names)
    free = [n for n in names if n not in case["fixed"]]
    if case.get("fault") and case["fault"].get("early"):
        # the very first request after the fit (nothing cached yet: covariance / Hessian are computed now) meets a cost function that raises
        return early_fault(ctx, case, fit, names, free, minimizer)
    s0 = snapshot(fit)
    _fe = s0["err"][[names.index(f) for f in free]]
    if not np.all(np.isfinite(s0["p"])) or not np.isfinite(s0["cost"]) or not np.all(np.isfinite(_fe)) or np.any(_fe <= 0):  # (nan <= 0 is False)
        ctx.discard("fit-result-not-usable")
        return False
    # parameter resting on a limit: uncertainties are not meaningful yardsticks -> discard (C06 covers limits)
    for n, (lo, hi) in case["limited"].items():
        v = s0["p"][names.index(n)]
        if min(abs(v - lo), abs(v - hi)) < 1e-3 * (hi - lo):
            ctx.discard("optimum-on-limit")
            return False
    sig = np.where(s0["err"] > 0, s0["err"], 1.0)
    # "unchanged up to the minimizer tolerance": one converged iminuit state is within 1e-2 sigma / 1e-3 in cost of the optimum, one converged scipy
    # state within 5e-2 sigma / 5e-3 (C05)
    ptol, ctol = (1e-2, 1e-3) if minimizer == "iminuit" else (5e-2, 5e-3)
    etol = 3e-2
    rng = np.random.default_rng(case["arg_seed"])
    tmpdir = tempfile.mkdtemp(prefix="verif-c08-")
    nontrivial = bool(case["fixed"] or case["limited"])
    prev_q, prev_ans, prev_rng_state = None, None, None
    nv0 = sum(ctx._wit_per_key.values())
    try:
        for i, q in enumerate(case["word"]):
            ctx.op(q)
            if prev_q is not None:
                ctx.add_to_set("query_bigrams", "%s>%s" % (prev_q, q))
            if q in REMINIMISING:
                nontrivial = True
            # identical arguments for an immediate repetition
            if q == prev_q:
                rng.bit_generator.state = prev_rng_state
            state_before = rng.bit_generator.state
            fault = case.get("fault") if case.get("fault") and case["fault"]["index"] == i else None
            mini_obj = fit._fitter.minimizer
            genuine_handle = mini_obj._func_handle
            if fault:
                mini_obj._func_handle = FaultyHandle(genuine_handle, fault["call"], mini_obj.parameter_values)
            try:
                with time_limit(180.0 if CONTOUR_KWARGS.get("algorithm") == "beacon" else 60.0):
                    ans = run_query(q, fit, rng, tmpdir, free)
            except OpTimeout:
                mini_obj._func_handle = genuine_handle
                ctx.discard("query-timeout")
                return nontrivial
            except InjectedFault as e:
                mini_obj._func_handle = genuine_handle
                ctx.stratum("fault-injected:" + minimizer)
                ctx.add_to_set("faulted_queries", q)
                try:
                    pg = np.array(fit.parameter_values, dtype=float)
                    cg = float(fit.cost_function_value)
                    pm = np.array(mini_obj.parameter_values, dtype=float)
                except Exception:
                    ctx.violation(None, "state-readable-after-failed-query", {"query": q, "index": i, "fault": fault, "traceback": fmt_exc()})
                    return nontrivial
                devg = np.abs(pg - s0["p"]) / sig
                ctx.check("drift.after-failed-query", bool(np.all(devg <= ptol)) and abs(cg - s0["cost"]) <= ctol, lambda: {"query": q, "index": i, "word": case["word"][: i + 1], "fault": fault, "before": s0["p"], "after": pg, "deviation_in_sigma": devg, "tolerance": ptol, "cost_before": s0["cost"], "cost_after": cg})
                scale_f = np.maximum(np.abs(pg), 1e-300)
                ctx.check("minimizer==graph.after-failed-query", bool(np.all(np.abs(pm - pg) <= 1e-12 * scale_f + 1e-300)), lambda: {"query": q, "index": i, "fault": fault, "minimizer": pm, "graph": pg})
                ctx.check("fixed-limited.after-failed-query", dict(fit._fitter.fixed_parameters) == s0["fixed"] and {k: tuple(v) for k, v in fit._fitter.limited_parameters.items()} == s0["limited"] and [bool(mini_obj.is_fixed(n)) for n in names] == [n in s0["fixed"] for n in names], lambda: {"query": q, "index": i, "fault": fault, "fixed_before": s0["fixed"], "fixed_after": dict(fit._fitter.fixed_parameters), "minimizer_fixed": [bool(mini_obj.is_fixed(n)) for n in names]})
                return True
            except Exception as e:
                mini_obj._func_handle = genuine_handle
                # numerical failure inside an excursion far from the optimum (cost infinite, nan Hessian; raised by numpy / scipy /
                # numdifftools / iminuit or by the nan-symmetry assertion on the numerical Hessian): the query has no answer; the
                # statement is about answers, so the case is not judged (counted)
                import sys

                tb = sys.exc_info()[2]
                while tb.tb_next:
                    tb = tb.tb_next
                inner = tb.tb_frame.f_code.co_filename
                numerical = "site-packages" in inner or (isinstance(e, AssertionError) and tb.tb_frame.f_code.co_name == "hessian")
                if numerical and isinstance(e, (AssertionError, IndexError, np.linalg.LinAlgError, FloatingPointError, ZeroDivisionError, OverflowError, RuntimeError)):
                    # no answer, but a request all the same: the values the model is evaluated with must be back where they were
                    # (read from the graph only: asking the minimiser for more results could fail again)
                    try:
                        pg = np.array(fit.parameter_values, dtype=float)
                        devg = np.abs(pg - s0["p"]) / sig
                        cg = float(fit.cost_function_value)
                        ctx.check("drift.after-failed-query", bool(np.all(devg <= ptol)) and abs(cg - s0["cost"]) <= ctol, lambda: {"query": q, "index": i, "word": case["word"][: i + 1], "exception": repr(e), "before": s0["p"], "after": pg, "deviation_in_sigma": devg, "tolerance": ptol, "cost_before": s0["cost"], "cost_after": cg})
                    except Exception:
                        pass
                    ctx.discard("query-failed-numerically")
                    return nontrivial
                ctx.violation(None, "query.no-exception", {"query": q, "index": i, "traceback": fmt_exc()})
                return nontrivial
            mini_obj._func_handle = genuine_handle
            if fault:
                ctx.note("fault-not-reached-or-swallowed")
            if q in ("contour", "cp_get_contours") and LAST_CONTOUR and len(free) >= 2:
                ctx.stratum("contour-algorithm:" + LAST_CONTOUR[0])
            nv = sum(ctx._wit_per_key.values())
            s = snapshot(fit)
            d = {"query": q, "index": i, "word": case["word"][: i + 1]}
            dev = np.abs(s["p"] - s0["p"]) / sig
            ctx.check("drift.parameter_values", bool(np.all(dev <= ptol)), lambda: dict(d, before=s0["p"], after=s["p"], deviation_in_sigma=dev, tolerance=ptol))
            ctx.worst["drift_sigma_" + minimizer] = max(ctx.worst.get("drift_sigma_" + minimizer, 0.0), float(dev.max()))
            ctx.check("drift.cost", abs(s["cost"] - s0["cost"]) <= ctol, lambda: dict(d, before=s0["cost"], after=s["cost"], tolerance=ctol))
            fi = [names.index(f) for f in free]
            ctx.check("drift.parameter_errors", bool(np.all(np.abs(s["err"] - s0["err"])[fi] <= etol * s0["err"][fi])), lambda: dict(d, before=s0["err"], after=s["err"]))
            ctx.check("did_fit", s["did_fit"] == s0["did_fit"], lambda: dict(d, before=s0["did_fit"], after=s["did_fit"]))
            ctx.check("fixed-limited", s["fixed"] == s0["fixed"] and s["limited"] == s0["limited"], lambda: dict(d, before=[s0["fixed"], s0["limited"]], after=[s["fixed"], s["limited"]]))
            scale = np.maximum(np.abs(s["p"]), 1e-300)
            ctx.check("minimizer==graph", bool(np.all(np.abs(s["mini_p"] - s["p"]) <= 1e-12 * scale + 1e-300)), lambda: dict(d, minimizer=s["mini_p"], graph=s["p"], difference_in_sigma=np.abs(s["mini_p"] - s["p"]) / sig), key=lambda: classify_mini(q, minimizer))
            if q == prev_q:
                rt, at = (2e-2, 2e-3) if q in REMINIMISING else (1e-6, 1e-12)
                if diverged(prev_ans) or diverged(ans):
                    # the cost never reaches the requested level on one side: the root search runs away to arbitrary values
                    ctx.discard("profile-level-not-reached-root-search-diverged")
                else:
                    ctx.check("idempotent", similar(prev_ans, ans, rt, at), lambda: dict(d, first=prev_ans, second=ans, rtol=rt, atol=at))
            prev_q, prev_ans, prev_rng_state = q, ans, state_before
            if sum(ctx._wit_per_key.values()) != nv:
                break
        # ---- after the last query: a configuration call that makes the backend start over from the settings it keeps for itself
        # (wide limits on a free parameter) must find those settings at the fit result, not where an excursion left them
        cand = [n for n in free if n not in case["limited"]]
        lim = [n for n in free if n in case["limited"]]
        if lim and sum(ctx._wit_per_key.values()) == nv0 and case["arg_seed"] % 2:
            # ... or the removal of a limit: the backend's own record of the limits went through its save / restore on every query
            n = lim[case["arg_seed"] // 2 % len(lim)]
            ctx.op("unlimit_parameter.after-queries")
            try:
                fit.unlimit_parameter(n)
                pg = np.array(fit.parameter_values, dtype=float)
                pm = np.array(fit._fitter.minimizer.parameter_values, dtype=float)
                d = {"word": case["word"], "unlimited_afterwards": n}
                devg = np.abs(pg - s0["p"]) / sig
                ctx.check("drift.after-unlimit_parameter", bool(np.all(devg <= ptol)), lambda: dict(d, before=s0["p"], after=pg, deviation_in_sigma=devg, tolerance=ptol))
                devm = np.abs(pm - pg) / sig
                ctx.check("minimizer==graph.after-unlimit_parameter", bool(np.all(devm <= 1e-9)), lambda: dict(d, minimizer=pm, graph=pg, difference_in_sigma=devm))
                ctx.check("limits.after-unlimit_parameter", n not in dict_limits(fit), lambda: dict(d, limits=dict_limits(fit)))
            except Exception:
                ctx.violation(None, "unlimit_parameter.after-queries.no-exception", {"word": case["word"], "unlimited_afterwards": n, "traceback": fmt_exc()})
        elif cand and sum(ctx._wit_per_key.values()) == nv0:
            n = cand[int(rng.integers(0, len(cand)))]
            k = names.index(n)
            w = 20.0 * sig[k] + 1.0
            ctx.op("limit_parameter.after-queries")
            try:
                fit.limit_parameter(n, float(s0["p"][k] - w), float(s0["p"][k] + w))
                pg = np.array(fit.parameter_values, dtype=float)
                pm = np.array(fit._fitter.minimizer.parameter_values, dtype=float)
                d = {"word": case["word"], "limited_afterwards": n}
                devg = np.abs(pg - s0["p"]) / sig
                ctx.check("drift.after-limit_parameter", bool(np.all(devg <= ptol)), lambda: dict(d, before=s0["p"], after=pg, deviation_in_sigma=devg, tolerance=ptol))
                devm = np.abs(pm - pg) / sig
                ctx.check("minimizer==graph.after-limit_parameter", bool(np.all(devm <= 1e-9)), lambda: dict(d, minimizer=pm, graph=pg, difference_in_sigma=devm))
            except Exception:
                ctx.violation(None, "limit_parameter.after-queries.no-exception", {"word": case["word"], "traceback": fmt_exc()})
    finally:
        shutil.rmtree(tmpdir, ignore_errors=True)
    return nontrivial


def dict_limits(fit):
    return {n: [float(a), float(b)] for n, (a, b) in dict(fit._fitter.limited_parameters).items()} if hasattr(fit._fitter, "limited_parameters") else {}


def classify_mini(q, minimizer):
    return None


def run_shard(ctx):
    idx = 0
    while ctx.more():
        case = gen_case(ctx.rng, ctx.tier, idx, ctx.shard, ctx.nshards)
        idx += 1
        ctx.begin_case(case)
        nontrivial = False
        try:
            nontrivial = run_case(ctx, case)
        except Exception:
            ctx.violation(None, "unexpected-exception", {"traceback": fmt_exc()})
        ctx.end_case(nontrivial=nontrivial)


def replay(ctx, case):
    ctx.begin_case(case)
    try:
        run_case(ctx, case)
    except Exception:
        ctx.violation(None, "unexpected-exception", {"traceback": fmt_exc()})
    ctx.end_case(nontrivial=True)
