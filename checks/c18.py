"""C18 — a plot draws exactly the fit's numbers.

Shape: artist-inspection monitor (matplotlib Agg backend, nothing is rendered or written).

Fitted problems (XYFit / IndexedFit / HistFit / UnbinnedFit, 1-3 per plot) are handed to ``Plot(fits).plot(**options)``;
the artists are located through the list of dictionaries that ``Plot.plot()`` returns (axes name -> plots -> {type,
fit_index, artist}) and their stored coordinates are compared with what the *reference* derives from the declared
inputs (vlib.ref / vlib.models) at the fit's current parameter values:

  data ErrorbarContainer   marker xy == data coordinates (histogram: bin centres / bin contents, indexed: index / data);
                           x bars == x -+ total pointwise x uncertainty (histogram: the bin), y bars == y -+ total pointwise
                           y uncertainty, combined in quadrature with sqrt(counts) for Poisson-type costs
  model Line2D             == reference model function at the artist's own x, spanning the data range
  band PolyCollection      == model -+ sqrt(diag(J C J^T)), J analytic, C = fit.parameter_cov_mat over the free parameters
  histogram bars / indexed steps == reference model bin contents / model values; histogram density line proportional to the density
  unbinned                 rug segments at the data values, density line == reference density
  ratio / residual / pull  == data/model, data - model, (data - model)/uncertainty, with the corresponding bars and bands
  legend                   parameter values, uncertainties (symmetric / asymmetric), gof / ndf, probability, cost parsed back
                           and compared with the fit's results within half a unit of the last displayed digit; also for
                           several fits that were constructed with one and the same model function object
"""
import re

import numpy as np

import copy

from vlib import dsl, gen
from vlib.fitcase import Member
from vlib.models import DENSITIES, FAMILIES, Model
from vlib.monitor import OpTimeout, Tol, fmt_exc, time_limit
from vlib.ref import COST_ALIASES, POISSON

from checks.c17 import _LATEX, Num, parse_pm, within_half

PROPERTY = "C18"
TIERS = {"quick": {"shards": 8, "budget_s": 40}, "thorough": {"shards": 16, "budget_s": 500}}
RULE = (
    "one case = 1-3 fitted problems drawn by one Plot.plot() call: fit type {xy, indexed, hist, unbinned} x uncertainty configuration "
    "{none, y, x and y, correlated (coefficient / matrix), relative to data, model-referenced} x cost {chi2, chi2 pointwise, Gaussian nll/nllr, "
    "Poisson nll/nllr, Gauss approximation; unbinned nll} x option {plain, ratio, residual, pull, asymmetric errors, separate figures, several "
    "fits, log x, log y, several fits built on ONE model function object (one figure / separate figures)} (+ fixed parameter, negated linear "
    "model so that model values are negative). Fits on one model function object: same fit type, model family and cost, own data and own "
    "uncertainty sources, constructed with the same ModelFunctionBase / HistModelFunction / IndexedModelFunction instance (kafe2 stores it "
    "without copying, the fits share their parameter formatters); every legend block must show ITS fit's numbers (observable "
    "legend.shared-model-function.value, stratum legends-distinguishable = the blocks of one plot differ). The first cases of a run enumerate "
    "every (fit type, option) and every (fit type, uncertainty configuration, cost) stratum, later ones sample. A case is non-trivial when the plot "
    "was produced and data artists, model artists and the legend of every fit were all compared; distinct by hash of the case."
)
ASSUMPTIONS = [
    "the reference side (data coordinates, declared uncertainties, sqrt(counts) term, model function, analytic parameter Jacobian, model bin contents via the "
    "analytic CDF) comes from vlib.ref / vlib.models; from the fit only its results are read: parameter_values, parameter_cov_mat, parameter_errors, "
    "asymmetric_parameter_errors, goodness_of_fit, ndf, chi2_probability, cost_function_value",
    "coordinates are compared LINALG-class (1e-9 relative to the size of the terms, matplotlib stores the doubles it is given); the uncertainty band 1e-3 relative "
    "(kafe2 differentiates numerically); legend numbers within half a unit of their own last displayed digit",
    "'uncertainty' of the pull = the total pointwise y uncertainty drawn as the y error bar of the data (declared y sources (+) sqrt(counts)); x uncertainties are "
    "not projected (the statement separates x and y bars)",
    "pull panels are only requested when every point has a non-zero total y uncertainty (otherwise the pull is undefined); unbinned fits have no ratio / "
    "residual / pull (documented TypeError) and are not asked for them; log x only for positive x (xy, unbinned)",
    "presentational choices are not judged: axis limits, bar widths of the histogram model, cap sizes, the x extent of pull bars, the height of the unbinned rug, "
    "the scale of the histogram density line (only proportionality to the density is required), whether a band is drawn when the fit has no valid errors",
    "fits that fail / do not converge / time out, and plots during which the fit state changed (C08's business) are discarded and counted, never judged",
    "an exception out of Plot.plot() for a plottable, fitted configuration is a violation (the statement quantifies over all plottable configurations)",
    "band tolerance = 1e-3 * half width + 2 * |band(J_cd) - band(J)| with J_cd the plain central difference of the reference model with the documented step "
    "(1 % of fit.parameter_errors); where that bound exceeds 1 % of the half width (ill-determined fit, model not linear over the step) the band is not judged and counted as discarded",
    "ratio panels are only requested when no reference model value at the data points vanishes; asymmetric uncertainties are compared by magnitude (the form ^{+U}_{-D} "
    "cannot display a sign); fits whose free parameters do not all have a finite positive uncertainty are discarded",
    "after the fit (and MINOS) the results are read until two consecutive snapshots agree; the plot is compared with that state and discarded if the state differs after plotting",
    "a legend line of the form '(fixed)' for a parameter that is free in its fit but fixed in another fit built on the same model function object is classified "
    "C18/fixed-marker-of-shared-model-function-object-shown-for-every-fit (predicate over the witness: line form, declared fixed parameters of the members, shared flag of the case)",
]
ANCHORS = [
    ("kafe2.fit._base.plot", "Plot.plot"),
    ("kafe2.fit._base.plot", "Plot._plot_and_get_results"),
    ("kafe2.fit._base.plot", "Plot._get_fit_info"),
    ("kafe2.fit._base.plot", "Plot._render_legend"),
    ("kafe2.fit._base.plot", "PlotAdapterBase._get_total_error"),
    ("kafe2.fit._base.plot", "PlotAdapterBase.plot_ratio"),
    ("kafe2.fit._base.plot", "PlotAdapterBase.plot_residual"),
    ("kafe2.fit._base.plot", "PlotAdapterBase.plot_pull"),
    ("kafe2.fit.xy.plot", "XYPlotAdapter.data_x"),
    ("kafe2.fit.xy.plot", "XYPlotAdapter.data_y"),
    ("kafe2.fit.xy.plot", "XYPlotAdapter.data_xerr"),
    ("kafe2.fit.xy.plot", "XYPlotAdapter.data_yerr"),
    ("kafe2.fit.xy.plot", "XYPlotAdapter.model_y"),
    ("kafe2.fit.xy.plot", "XYPlotAdapter.model_line_x"),
    ("kafe2.fit.xy.plot", "XYPlotAdapter.model_line_y"),
    ("kafe2.fit.xy.plot", "XYPlotAdapter.y_error_band"),
    ("kafe2.fit.xy.plot", "XYPlotAdapter.plot_data"),
    ("kafe2.fit.xy.plot", "XYPlotAdapter.plot_model_line"),
    ("kafe2.fit.xy.plot", "XYPlotAdapter.plot_model_error_band"),
    ("kafe2.fit.xy.plot", "XYPlotAdapter.plot_ratio_error_band"),
    ("kafe2.fit.xy.plot", "XYPlotAdapter.plot_residual_error_band"),
    ("kafe2.fit.indexed.plot", "IndexedPlotAdapter.data_yerr"),
    ("kafe2.fit.indexed.plot", "IndexedPlotAdapter.plot_data"),
    ("kafe2.fit.indexed.plot", "IndexedPlotAdapter.plot_model"),
    ("kafe2.fit.histogram.plot", "HistPlotAdapter.data_x"),
    ("kafe2.fit.histogram.plot", "HistPlotAdapter.data_xerr"),
    ("kafe2.fit.histogram.plot", "HistPlotAdapter.data_yerr"),
    ("kafe2.fit.histogram.plot", "HistPlotAdapter.model_density_y"),
    ("kafe2.fit.histogram.plot", "HistPlotAdapter.plot_data"),
    ("kafe2.fit.histogram.plot", "HistPlotAdapter.plot_model"),
    ("kafe2.fit.histogram.plot", "HistPlotAdapter.plot_model_density"),
    ("kafe2.fit.unbinned.plot", "UnbinnedPlotAdapter.plot_data"),
    ("kafe2.fit.unbinned.plot", "UnbinnedPlotAdapter.plot_model_line"),
    ("kafe2.fit._aux", "step_fill_between"),
    ("kafe2.fit._aux", "add_pad_to_range"),
]

BAND = Tol.custom("BAND", 1e-3, 1e-12)
PROP = Tol.custom("PROPORTIONAL", 1e-9, 0.0)

# "shared": several fits on one plot that were all constructed with the SAME model function object (kafe2 stores it without
# copying, so the fits share the parameter formatters the legend is written from); "shared-separate": the same, one figure per fit
OPTIONS = {
    "xy": ["plain", "ratio", "residual", "pull", "asym", "separate", "multi", "logx", "logy", "shared", "shared-separate"],
    "indexed": ["plain", "ratio", "residual", "pull", "asym", "separate", "multi", "logy", "shared"],
    "hist": ["plain", "ratio", "residual", "pull", "asym", "separate", "multi", "logy", "shared", "shared-separate"],
    "unbinned": ["plain", "asym", "separate", "multi", "logx", "logy", "shared"],
}
STRATA = [(t, o) for t in ("xy", "indexed", "hist", "unbinned") for o in OPTIONS[t]]
# (fit type, uncertainty configuration, cost)
UCFG = [
    ("xy", "none", "chi2"),
    ("xy", "y", "chi2"),
    ("xy", "xy", "chi2"),
    ("xy", "corr", "chi2"),
    ("xy", "rel", "chi2"),
    ("xy", "model", "chi2"),
    ("xy", "xy", "chi2_pointwise"),
    ("xy", "y", "nll_gaussian"),
    ("xy", "y", "nllr_gaussian"),
    ("xy", "none", "nll_poisson"),
    ("xy", "y", "nllr_poisson"),
    ("xy", "none", "gauss_approximation"),
    ("indexed", "none", "chi2"),
    ("indexed", "y", "chi2"),
    ("indexed", "corr", "chi2"),
    ("indexed", "rel", "chi2"),
    ("indexed", "model", "chi2"),
    ("indexed", "none", "nll_poisson"),
    ("indexed", "y", "nllr_poisson"),
    ("indexed", "y", "gauss_approximation"),
    ("hist", "none", "nll_poisson"),
    ("hist", "y", "nll_poisson"),
    ("hist", "none", "nllr_poisson"),
    ("hist", "y", "chi2"),
    ("hist", "corr", "chi2"),
    ("hist", "rel", "chi2"),
    ("hist", "none", "gauss_approximation"),
    ("hist", "y", "nll_gaussian"),
    ("unbinned", "none", "nll"),
]
N_ENUM = len(STRATA) + len(UCFG)


def floors(tier):
    k = 1 if tier == "quick" else 25
    return {
        "comparisons": {
            "plot.no-exception": 50 * k,
            "data.marker": 50 * k,
            "data.xbar": 25 * k,
            "data.ybar": 40 * k,
            "model.line": 20 * k,
            "model.band": 12 * k,
            "hist.model-bars": 10 * k,
            "hist.density-proportional": 10 * k,
            "indexed.model-steps": 8 * k,
            "unbinned.rug": 4 * k,
            "unbinned.density-line": 4 * k,
            "ratio.value": 5 * k,
            "ratio.ybar": 3 * k,
            "residual.value": 5 * k,
            "residual.ybar": 4 * k,
            "pull.value": 4 * k,
            "pull.bar": 4 * k,
            "panel.band": 3 * k,
            "legend.count": 45 * k,
            "legend.value": 90 * k,
            "legend.error": 60 * k,
            "legend.asym-error": 8 * k,
            "legend.gof": 30 * k,
            "legend.ndf": 30 * k,
            "legend.gof-per-ndf": 30 * k,
            "legend.probability": 12 * k,
            "legend.cost": 10 * k,
            "legend.shared-model-function.value": 12 * k,
        },
        "ops": ["Plot.plot", "do_fit"],
        "reach": ["%s:%s" % a for a in ANCHORS],
        "strata": ["%s|%s" % s for s in STRATA] + ["ucfg|%s|%s|%s" % u for u in UCFG] + ["fits|1", "fits|2", "fits|3", "fixed-parameter", "negative-model", "replot-after-refit"]
        + ["shared-model-function|%s" % t for t in ("xy", "indexed", "hist", "unbinned")]
        + ["shared-model-function|one-figure", "shared-model-function|separate-figures", "shared-model-function|legends-distinguishable"],
        "distinct_nontrivial": 45 * k,
    }


# ------------------------------------------------------------------ generation
XY_FAMILIES = ["poly1", "poly2", "exponential", "trig", "expbasis", "gausspeak", "logistic", "sinusoid", "powerlaw", "poly3"]
XY_FAMILIES_COUNTS = ["poly1", "poly2", "exponential", "expbasis", "gausspeak", "logistic"]  # positive expectations


def _first_source(rng, ftype, n, ucfg, name, yscale):
    f = {"axis": "y", "reference": "data", "kind": "simple", "relative": False, "corr": 0.0, "shape": str(rng.choice(["scalar", "vec", "constvec"]))}
    if ucfg == "corr":
        if rng.random() < 0.5:
            f["corr"] = float(rng.choice([1.0, float(np.round(rng.uniform(0.05, 0.95), 3))]))
        else:
            f = {"axis": "y", "reference": "data", "kind": "matrix", "relative": False}
    elif ucfg == "rel":
        f["relative"] = True
    elif ucfg == "model":
        f["reference"] = "model"
        f["relative"] = bool(rng.random() < 0.7)
    return gen.gen_source(rng, n, ftype, name, yscale=yscale, force=f)


def gen_member(rng, tier, ftype, ucfg, cost, j, positive_x=False, allow_negate=True, like=None):
    """like: an already generated member of the same fit type whose model (family, name, default values) this one shares:
    own data, own uncertainty sources, same model specification (the fits are then built on one model function object)"""
    prefix = "m%d" % j
    lm = like["spec"]["model"] if like is not None else None
    fid = COST_ALIASES.get(cost)
    counts = fid in POISSON
    big = tier != "quick" and rng.random() < 0.3
    neg = False
    if ftype in ("xy", "indexed"):
        fam = lm["family"] if lm else str(rng.choice(XY_FAMILIES_COUNTS if counts else XY_FAMILIES))
        npar = len(FAMILIES[fam][0])
        n = int(rng.integers(npar + 2, 30 if big else 10))
        mk = gen.gen_xy_spec if ftype == "xy" else gen.gen_indexed_spec
        if lm and ftype == "indexed":
            # the index -> x map is part of an indexed model function: same support points, new data around the same family
            spec = copy.deepcopy(like["spec"])
            m0 = Model.from_spec(lm)
            n = len(spec["x"])
            y = m0.f(np.array(spec["x"], dtype=float), gen.perturbed_params(rng, m0, 0.1))
            y = rng.poisson(np.clip(np.abs(y) * 4.0 + 1.0, 0.5, 200.0)).astype(float) if counts else y + rng.normal(size=n) * 0.1 * (np.abs(y).mean() + 0.1)
            spec["data"] = [float(np.round(v, 5)) for v in y]
            spec["cost"] = cost
        else:
            spec = mk(rng, family=fam, cost=cost, counts=counts, n=n)
        if allow_negate and not counts and FAMILIES[fam][4] and rng.random() < 0.25:
            # a linear family with all parameters negated is the negated function: model values below zero
            spec["model"]["defaults"] = [-d for d in spec["model"]["defaults"]]
            key = "y" if ftype == "xy" else "data"
            spec[key] = [-v for v in spec[key]]
            neg = True
        yv = spec.get("y") or spec["data"]
    elif ftype == "hist":
        dens = str(rng.choice(["normal", "expdens", "mixture"], p=[0.45, 0.35, 0.2]))
        dens = lm["family"] if lm else dens
        npar = len(DENSITIES[dens][0])
        spec = gen.gen_hist_spec(rng, density=dens, cost=cost, n_bins=int(rng.integers(npar + 2, 25 if big else 10)), n_entries=int(rng.integers(60, 2000 if big else 300)))
        n = len(spec["edges"]) - 1
        yv = [len(spec["entries"]) / float(n)]
    else:
        dens = str(rng.choice(["normal", "expdens", "mixture"], p=[0.4, 0.4, 0.2])) if not positive_x else "expdens"
        dens = lm["family"] if lm else dens
        spec = gen.gen_unbinned_spec(rng, density=dens, n=int(rng.integers(15, 200 if big else 60)))
        n = len(spec["data"])
        yv = [1.0]
    spec["model"]["name"] = "f%d_%s" % (j, spec["model"]["family"])
    if lm:
        spec["model"] = copy.deepcopy(lm)
    ops = []
    if ftype != "unbinned" and ucfg != "none":
        yscale = float(np.mean(np.abs(yv)) + 0.5)
        ops.append(_first_source(rng, ftype, n, ucfg, prefix + "e0", yscale))
        if ucfg == "xy":
            ops.append(gen.gen_source(rng, n, ftype, prefix + "e1", force={"axis": "x", "reference": "data", "kind": str(rng.choice(["simple", "simple", "matrix"]))}))
        if ucfg == "model" and rng.random() < 0.6:
            ops.append(gen.gen_source(rng, n, ftype, prefix + "e1", yscale=yscale, force={"axis": "y", "reference": "data", "kind": "simple", "relative": False, "shape": "scalar"}))
        if rng.random() < 0.25:
            ops.append(gen.gen_source(rng, n, ftype, prefix + "e2", yscale=yscale, allow_model=False, allow_x=(ftype == "xy" and ucfg == "xy"), force={"axis": None if ucfg == "xy" else "y"}))
    m = Model.from_spec(spec["model"])
    fixed = False
    if len(m.pnames) >= 2 and rng.random() < 0.15:
        i = int(rng.integers(0, len(m.pnames)))
        ops.append(["fix_parameter", m.pnames[i], float(m.defaults[i])])
        fixed = True
    return {"spec": spec, "setup": ops, "ucfg": ucfg, "fixed": fixed, "negated": neg}


def _pick_ucfg(rng, ftype, option, cost=None):
    """a random (uncertainty configuration, cost) of the fit type that the option can be asked for (cost: only with this cost)"""
    cand = [u for u in UCFG if u[0] == ftype and (cost is None or u[2] == cost)]
    if option == "pull":
        cand = [u for u in cand if not (u[1] == "none" and COST_ALIASES.get(u[2]) not in POISSON)]
    u = cand[int(rng.integers(0, len(cand)))]
    return u[1], u[2]


def gen_case(rng, tier, idx, shard, nshards):
    gi = idx * nshards + shard
    forced_u = None
    if gi < len(STRATA):
        ftype, option = STRATA[gi]
    elif gi < N_ENUM:
        ftype, ucfg, cost = UCFG[gi - len(STRATA)]
        forced_u = (ucfg, cost)
        opts = [o for o in OPTIONS[ftype] if not (o == "pull" and ucfg == "none" and COST_ALIASES.get(cost) not in POISSON)]
        option = str(rng.choice(opts))
    else:
        ftype = str(rng.choice(["xy", "indexed", "hist", "unbinned"], p=[0.4, 0.2, 0.3, 0.1]))
        option = str(rng.choice(OPTIONS[ftype]))
    o = {"panel": None, "asym": False, "separate": False, "x_scale": "linear", "y_scale": "linear"}
    nfits = 1
    shared = False
    if option in ("ratio", "residual", "pull"):
        o["panel"] = option
    elif option == "asym":
        o["asym"] = True
    elif option == "separate":
        o["separate"] = True
        nfits = int(rng.integers(2, 4))
    elif option == "multi":
        nfits = int(rng.integers(2, 4))
    elif option in ("shared", "shared-separate"):
        nfits = int(rng.integers(2, 4))
        shared = True
        o["separate"] = option == "shared-separate"
    elif option == "logx":
        o["x_scale"] = "log"
    elif option == "logy":
        o["y_scale"] = "log"
    if gi >= N_ENUM:
        # combine options freely in the sampling phase
        if o["panel"] is None and ftype != "unbinned" and rng.random() < 0.3:
            o["panel"] = str(rng.choice(["ratio", "residual", "pull"]))
        if rng.random() < 0.2:
            o["asym"] = True
        if nfits == 1 and rng.random() < 0.25:
            nfits = int(rng.integers(2, 4))
        if nfits > 1 and rng.random() < 0.4:
            o["separate"] = True
        if rng.random() < 0.15:
            o["y_scale"] = "log"
        if nfits > 1 and rng.random() < 0.3:
            shared = True
    members = []
    for j in range(nfits):
        t = ftype
        if j > 0 and not shared and o["x_scale"] == "linear" and rng.random() < 0.3:
            t = str(rng.choice(["xy", "indexed", "hist"] if o["panel"] else ["xy", "indexed", "hist", "unbinned"]))
        if j == 0 and forced_u is not None:
            ucfg, cost = forced_u
        else:
            ucfg, cost = _pick_ucfg(rng, t, o["panel"], cost=members[0]["spec"]["cost"] if (shared and j > 0) else None)
        members.append(gen_member(rng, tier, t, ucfg, cost, j, positive_x=(o["x_scale"] == "log"), allow_negate=not shared, like=members[0] if (shared and j > 0) else None))
    # every fourth case draws the same Plot object a second time after the fits have been changed and fitted again
    case = {"property": "C18", "stratum": [ftype, option], "options": o, "members": members, "replot": bool(gi % 4 == 2)}
    if shared:
        case["shared_model_function"] = True
    return case


# ------------------------------------------------------------------ reference quantities
class Expect:
    """What the reference says about one fitted member at the parameter values p."""

    def __init__(self, mb, p):
        r = mb.ref
        self.type = t = mb.spec["type"]
        self.p = p
        self.model = r.model
        self.poisson = t != "unbinned" and mb.ref.fid in POISSON
        if t == "unbinned":
            self.x = np.array(r.d, dtype=float)
            return
        if t == "xy":
            self.x = np.array(r.x, dtype=float)
            self.xerr = np.sqrt(np.clip(np.diag(r.axis_cov("x", p)), 0.0, None))
        elif t == "indexed":
            self.x = np.arange(r.n, dtype=float)
            self.xerr = None
        else:
            self.x = 0.5 * (r.edges[:-1] + r.edges[1:])
            self.xerr = 0.5 * (r.edges[1:] - r.edges[:-1])
        self.y = np.array(r.d, dtype=float)
        self.m = np.array(r.model_values(p), dtype=float)
        self.yerr_declared = np.sqrt(np.clip(np.diag(r.axis_cov("y", p)), 0.0, None))
        self.yerr = np.sqrt(self.yerr_declared**2 + (np.abs(self.y) if self.poisson else 0.0))

    def band(self, xs, cov, free, errors=None):
        """(half width with the analytic Jacobian, bound of the error of a numerical Jacobian with the documented step).

        kafe2 documents that it differentiates numerically with a step of 1 % of the parameter uncertainty.  The second
        number is |band(J_cd) - band(J)| where J_cd is the plain central difference of the *reference* model with that
        step: it measures how non-linear the model is over the step (large only for ill-determined fits)."""
        J = self.model.dfdp(xs, self.p)[free]  # n_free x N
        C = np.asarray(cov, dtype=float)[np.ix_(free, free)]
        half = np.sqrt(np.clip(np.einsum("in,ij,jn->n", J, C, J), 0.0, None))
        # the documented step is 1 % of fit.parameter_errors (which an iminuit fit may hold inconsistent with the covariance
        # matrix after a failed MINOS/HESSE: property C07's business)
        sig = np.sqrt(np.clip(np.diag(C), 0.0, None)) if errors is None else np.abs(np.asarray(errors, dtype=float))[free]
        Jcd = np.zeros_like(J)
        for a, i in enumerate(free):
            h = 1e-2 * sig[a]
            if h <= 0:
                Jcd[a] = J[a]
                continue
            pp, pm = np.array(self.p, dtype=float), np.array(self.p, dtype=float)
            pp[i] += h
            pm[i] -= h
            Jcd[a] = (self.model.f(xs, pp) - self.model.f(xs, pm)) / (2.0 * h)
        half_cd = np.sqrt(np.clip(np.einsum("in,ij,jn->n", Jcd, C, Jcd), 0.0, None))
        bound = np.abs(half_cd - half)
        bound = np.where(np.isfinite(bound), bound, np.inf)
        return half, bound


def held(fit, want_asym):
    h = {
        "values": np.array(fit.parameter_values, dtype=float),
        "errors": None if fit.parameter_errors is None else np.array(fit.parameter_errors, dtype=float),
        "cov": None if fit.parameter_cov_mat is None else np.array(fit.parameter_cov_mat, dtype=float),
        "cost": float(fit.cost_function_value),
        "gof": fit.goodness_of_fit,
        "ndf": int(fit.ndf),
        "prob": fit.chi2_probability,
        "asym": None,
    }
    if want_asym:
        a = fit.asymmetric_parameter_errors
        h["asym"] = None if a is None else np.array(a, dtype=float)
    return h


def _same(a, b):
    if a is None or b is None:
        return a is None and b is None
    return np.shape(a) == np.shape(b) and bool(np.array_equal(np.asarray(a, dtype=float), np.asarray(b, dtype=float), equal_nan=True))


def same_held(a, b):
    return all(_same(a[k], b[k]) for k in a)


# ------------------------------------------------------------------ artist readers
def _segments(lc):
    s = lc.get_segments()
    if len(s) == 0:
        return np.zeros((0, 2, 2))
    return np.array([np.asarray(v, dtype=float) for v in s])


def _sc(*terms):
    """comparison scale: sum of the sizes of the terms that enter the expected number"""
    out = 0.0
    for t in terms:
        if t is not None:
            out = out + np.abs(np.asarray(t, dtype=float))
    return out


def check_errorbar(ctx, pre, art, axes, x, y, xerr, yerr, det, ybar_asym=None, xbar_centre_only=False, key=None, obs_marker=None, obs_ybar=None):
    """art: what the adapter returned for a data-like plot.  Returns True when markers and all expected bars agreed."""
    from matplotlib.container import ErrorbarContainer
    from matplotlib.lines import Line2D

    n = len(x)
    obs_marker = obs_marker or pre + ".marker"
    obs_ybar = obs_ybar or pre + ".ybar"
    if isinstance(art, list) and len(art) == 1 and isinstance(art[0], Line2D):
        # plain markers (no uncertainty at all)
        xy = art[0].get_xydata()
        ok = ctx.check(pre + ".drawn", art[0] in axes.lines, det, key=key)
        ok = ok and ctx.close(obs_marker, xy, np.column_stack([x, y]), scale=np.column_stack([_sc(x), _sc(y)]) + 1e-300, detail=det, key=key)
        if ok and yerr is not None and np.any(yerr > 0):
            ok = ctx.check(obs_ybar, False, dict(det, why="y uncertainties exist but no error bars were drawn", expected_yerr=yerr), key=key)
        return ok
    if not ctx.check(pre + ".drawn", isinstance(art, ErrorbarContainer) and art in axes.containers, lambda: dict(det, artist=repr(art)), key=key):
        return False
    line, _caps, bars = art.lines
    if not ctx.check(pre + ".drawn", line is not None, det, key=key):
        return False
    exp_xy = np.column_stack([x, y])
    if not ctx.close(obs_marker, line.get_xydata(), exp_xy, scale=np.column_stack([_sc(x), _sc(y)]) + 1e-300, detail=det, key=key):
        return False
    bars = list(bars)
    i = 0
    xb = yb = None
    if art.has_xerr:
        xb = _segments(bars[i]) if i < len(bars) else None
        i += 1
    if art.has_yerr:
        yb = _segments(bars[i]) if i < len(bars) else None
    # -- x bars
    if xerr is not None and (np.any(xerr > 0) or xb is not None):
        if not ctx.check(pre + ".xbar", xb is not None and xb.shape == (n, 2, 2), lambda: dict(det, why="x bars missing or of the wrong count", expected_xerr=xerr), key=key):
            return False
        if xbar_centre_only:
            got = np.column_stack([0.5 * (xb[:, 0, 0] + xb[:, 1, 0]), xb[:, 0, 1], xb[:, 1, 1]])
            exp = np.column_stack([x, y, y])
            sc = np.column_stack([_sc(x), _sc(y), _sc(y)])
        else:
            got = np.column_stack([xb[:, 0, 0], xb[:, 1, 0], xb[:, 0, 1], xb[:, 1, 1]])
            exp = np.column_stack([x - xerr, x + xerr, y, y])
            sc = np.column_stack([_sc(x, xerr), _sc(x, xerr), _sc(y), _sc(y)])
        if not ctx.close(pre + ".xbar", got, exp, scale=sc + 1e-300, detail=lambda_detail(det, expected_xerr=xerr), key=key):
            return False
    elif xb is not None and xb.size and not xbar_centre_only:
        if not ctx.check(pre + ".xbar", False, dict(det, why="x bars drawn although there is no x uncertainty"), key=key):
            return False
    # -- y bars
    if ybar_asym is not None:
        lo, hi = ybar_asym
    elif yerr is not None:
        lo, hi = y - yerr, y + yerr
    else:
        lo = hi = None
    if lo is not None and (np.any(hi > lo) or yb is not None):
        if not ctx.check(obs_ybar, yb is not None and yb.shape == (n, 2, 2), lambda: dict(det, why="y bars missing or of the wrong count", expected_yerr=yerr), key=key):
            return False
        got = np.column_stack([yb[:, 0, 1], yb[:, 1, 1], yb[:, 0, 0], yb[:, 1, 0]])
        exp = np.column_stack([lo, hi, x, x])
        s = _sc(y, yerr) if ybar_asym is None else _sc(lo, hi)
        sc = np.column_stack([s, s, _sc(x), _sc(x)])
        if not ctx.close(obs_ybar, got, exp, scale=sc + 1e-300, detail=lambda_detail(det, expected_yerr=yerr), key=key):
            return False
    elif yb is not None and yb.size:
        if not ctx.check(obs_ybar, False, dict(det, why="y bars drawn although there is no y uncertainty"), key=key):
            return False
    return True


def lambda_detail(det, **kw):
    d = dict(det)
    d.update(kw)
    return d


def band_from_poly(poly, xs):
    """(lower, upper) of a fill_between polygon on the grid xs, or None if the polygon does not live on that grid"""
    paths = poly.get_paths()
    if len(paths) != 1:
        return None
    v = np.asarray(paths[0].vertices, dtype=float)
    lo = {}
    hi = {}
    for xv, yv in v:
        if xv in lo:
            lo[xv] = min(lo[xv], yv)
            hi[xv] = max(hi[xv], yv)
        else:
            lo[xv] = yv
            hi[xv] = yv
    if set(lo) != set(float(t) for t in xs):
        return None
    return np.array([lo[float(t)] for t in xs]), np.array([hi[float(t)] for t in xs])


def check_band(ctx, obs, poly, axes, xs, centre, half_bound, det, key=None, divide_by=None):
    from matplotlib.collections import PolyCollection

    half, bound = half_bound
    if not np.all(bound <= 1e-2 * half + 1e-300):
        # ill-determined fit: the model is not linear over the documented differentiation step, linear error propagation
        # with a numerical Jacobian is not comparable with the analytic one
        ctx.discard("band-not-judged-model-nonlinear-over-differentiation-step")
        return True
    if divide_by is not None:
        half, bound = half / divide_by, bound / divide_by

    if not ctx.check(obs + ".drawn", isinstance(poly, PolyCollection) and poly in axes.collections, lambda: dict(det, artist=repr(poly)), key=key):
        return False
    lu = band_from_poly(poly, xs)
    if not ctx.check(obs + ".grid", lu is not None, lambda: dict(det, why="the band polygon is not a single polygon over the x grid of the model line"), key=key):
        return False
    got = np.column_stack(lu)
    exp = np.column_stack([centre - half, centre + half])
    sc = np.column_stack([_sc(centre, half), _sc(centre, half)]) + 1e-300
    # the band itself is a numerical derivative on kafe2's side: 1e-3 of the half width, 1e-9 of the centre
    tol_abs = 1e-3 * np.abs(half) + 2.0 * bound + 1e-9 * np.abs(centre) + 1e-12
    ok = bool(np.all(np.abs(got - exp) <= np.column_stack([tol_abs, tol_abs]))) if got.shape == exp.shape else False
    return ctx.check(obs, ok, lambda: dict(det, got_lower_upper=got, expected_lower_upper=exp, expected_half_width=half, tolerance="1e-3 * half width + 2 * central-difference bound + 1e-9 * centre", fd_bound=bound, scale=sc), key=key)


# ------------------------------------------------------------------ legend
_N = "(?:%s)" % _LATEX
RX_GOF = re.compile(r"^\$\\hookrightarrow\$\$(?P<name>.+?) / \{\\rm ndf\} = (?P<g>%s) / (?P<n>-?\d+)(?: = (?P<r>%s))?\$$" % (_N, _N))
RX_COST = re.compile(r"^\$\\hookrightarrow\$\$(?P<name>.+?) = (?P<c>%s)\$$" % _N)
RX_PROB = re.compile(r"^\$\\hookrightarrow \\chi\^2 \\, \\mathrm\{probability =\}\$\$(?P<p>%s)\$$" % _N)


def parse_info(text, npar):
    """legend info text -> {"params": [(name_tex, kind, [Num])], "gof": (G, n, R|None), "cost": C, "prob": P} or (None, why)"""
    lines = [ln.strip() for ln in text.split("\n") if ln.strip()]
    if len(lines) < 1 + npar:
        return None, "fewer lines than parameters"
    out = {"head": lines[0], "params": [], "gof": None, "cost": None, "prob": None}
    for ln in lines[1 : 1 + npar]:
        if " = " not in ln:
            return None, "parameter line without ' = ': %r" % ln
        name, body = ln.split(" = ", 1)
        pp = parse_pm(body, True)
        if pp is None:
            return None, "parameter line not of a documented form: %r" % ln
        out["params"].append((name, pp[0], pp[1]))
    for ln in lines[1 + npar :]:
        m = RX_PROB.match(ln)
        if m:
            out["prob"] = Num(m.group("p"))
            continue
        m = RX_GOF.match(ln)
        if m:
            out["gof"] = (Num(m.group("g")), int(m.group("n")), Num(m.group("r")) if m.group("r") else None, m.group("name"))
            continue
        m = RX_COST.match(ln)
        if m:
            out["cost"] = (Num(m.group("c")), m.group("name"))
            continue
        return None, "unrecognised line: %r" % ln
    return out, None


def check_legend_text(ctx, text, mb, h, want_asym, det, shared_with=None):
    """Compare one fit-info text with the held results of its fit. Returns True when everything displayed was compared and agreed.
    shared_with: the other members on the plot that were built on the same model function object (None: own model function)."""
    names = list(mb.ref.model.pnames)
    info, why = parse_info(text, len(names))
    det = dict(det, text=text)
    if not ctx.check("legend.parsed", info is not None, lambda: dict(det, why=why)):
        return False
    fixed = set(mb.ref.fixed)
    have_errors = h["errors"] is not None and mb.fid != "chi2_noerr"
    for i, (name_tex, kind, nums) in enumerate(info["params"]):
        d = lambda: dict(det, parameter=names[i], line_form=kind, displayed=[x.j() for x in nums], held_value=h["values"][i], held_error=None if h["errors"] is None else h["errors"][i], held_asym=None if h["asym"] is None else h["asym"][i])  # noqa: E731
        V = nums[0]
        if shared_with is not None and not ctx.check("legend.shared-model-function.value", within_half(V.d, V.q, h["values"][i]), d):
            return False
        if not ctx.check("legend.value", within_half(V.d, V.q, h["values"][i]), d):
            return False
        if names[i] in fixed:
            if not ctx.check("legend.fixed-marker", kind == "fixed", d):
                return False
            continue

        def fixed_key():
            # the parameter is free in this fit, displayed as fixed (with this fit's value), and fixed in another fit on the
            # plot that was built on the same model function object
            if kind == "fixed" and shared_with and any(names[i] in o.ref.fixed for o in shared_with):
                return "C18/fixed-marker-of-shared-model-function-object-shown-for-every-fit"
            return None

        if not ctx.check("legend.fixed-marker", kind != "fixed", lambda: dict(d(), fixed_in_fits_sharing_the_model_function=[names[i] in o.ref.fixed for o in (shared_with or [])]), key=fixed_key):
            return False
        if kind == "plain":
            if not ctx.check("legend.error", not have_errors, lambda: dict(d(), why="the fit holds an uncertainty that is not displayed")):
                return False
            continue
        if kind == "sym":
            if not ctx.check("legend.form", not want_asym, lambda: dict(d(), why="asymmetric errors requested, symmetric ones displayed")):
                return False
            E = nums[1]
            if not ctx.check("legend.error", h["errors"] is not None and within_half(E.d, E.q, h["errors"][i]), d):
                return False
        else:
            if not ctx.check("legend.form", want_asym, lambda: dict(d(), why="asymmetric errors displayed without being requested")):
                return False
            a = h["asym"][i] if h["asym"] is not None else np.array([-h["errors"][i], h["errors"][i]])
            if not np.all(np.isfinite(a)):
                a = np.array([-h["errors"][i], h["errors"][i]])
            U, Dn = nums[1], nums[2]
            # the form '^{+U}_{-D}' displays magnitudes (MINOS may return an 'upper' error below zero for ill-determined fits)
            if not ctx.check("legend.asym-error", within_half(U.d, U.q, abs(a[1])) and within_half(Dn.d, Dn.q, abs(a[0])), d):
                return False
    gof, ndf = h["gof"], h["ndf"]
    dq = lambda: dict(det, held_gof=gof, held_ndf=ndf, held_cost=h["cost"], held_probability=h["prob"])  # noqa: E731
    if info["gof"] is not None:
        G, n, R, _nm = info["gof"]
        if not ctx.check("legend.gof", gof is not None and within_half(G.d, G.q, gof), dq):
            return False
        if not ctx.check("legend.ndf", n == ndf, dq):
            return False
        if ndf > 0:
            if not ctx.check("legend.gof-per-ndf", R is not None and within_half(R.d, R.q, float(gof) / ndf), dq):
                return False
    elif have_errors and gof is not None:
        if not ctx.check("legend.gof", False, lambda: dict(dq(), why="goodness of fit held but not displayed")):
            return False
    if info["prob"] is not None:
        P = info["prob"]
        if not ctx.check("legend.probability", h["prob"] is not None and within_half(P.d, P.q, h["prob"]), dq):
            return False
    elif have_errors and mb.is_chi2() and h["prob"] is not None:
        if not ctx.check("legend.probability", False, lambda: dict(dq(), why="chi2 probability held but not displayed")):
            return False
    if info["cost"] is not None:
        C = info["cost"][0]
        if not ctx.check("legend.cost", within_half(C.d, C.q, h["cost"]), dq):
            return False
    return not (info["gof"] is None and info["cost"] is None)


# ------------------------------------------------------------------ classifiers of genuine defects (mechanism keys)
def classify_exception(e, case, members):
    """Predicate over the witness: option, exception, and what the *reference* says about the members (never seed / hash)."""
    panel = case["options"]["panel"]
    msg = str(e)
    exps = []
    for mb in members:
        if mb.spec["type"] != "unbinned":
            exps.append(Expect(mb, mb.ref.p))
    if panel == "pull" and isinstance(e, ValueError) and "Axis limits cannot be NaN or Inf" in msg:
        # the automatic pull range divides by the declared uncertainties only: some point without a declared y uncertainty
        # although its total uncertainty (incl. the sqrt(counts) term) is positive
        if any(np.any((ex.yerr_declared == 0) & (ex.yerr > 0)) for ex in exps):
            return "C18/pull-range-divides-by-declared-uncertainty-only"
    if isinstance(e, ValueError) and "Support point calculation failed" in msg:
        return classify_logx(case, members)
    if panel == "ratio" and isinstance(e, ValueError) and "must not contain negative values" in msg:
        # ratio error bar = total uncertainty / model value with its sign
        if any(np.any((ex.m < 0) & (ex.yerr > 0)) for ex in exps):
            return "C18/ratio-error-bar-divided-by-signed-model-value"
    return None


def classify_logx(case, members):
    """log x requested for several fits on one figure: the adapters keep the (shared) linearly padded x range, whose lower end
    (data minimum - 5 % of the data width) is not positive, so the support points of the model curves cannot be computed"""
    o = case["options"]
    if o["x_scale"] != "log" or len(members) < 2 or o["separate"]:
        return None
    lows = []
    for mb in members:
        if mb.spec["type"] not in ("xy", "unbinned"):
            return None
        v = np.asarray(mb.ref.x if mb.spec["type"] == "xy" else mb.ref.d, dtype=float)
        lows.append(v.min() - 0.05 * (v.max() - v.min()))
    if min(lows) <= 0:
        return "C18/log-x-with-several-fits-keeps-linear-padded-range"
    return None


# ------------------------------------------------------------------ fits built on one model function object
def model_function_object(spec):
    """The kafe2 model function object of the fit type (what a user writes as mf = ModelFunctionBase(f) / HistModelFunction(f) / ...)."""
    from kafe2.fit import HistFit, IndexedFit, UnbinnedFit, XYFit

    t = spec["type"]
    m = Model.from_spec(spec["model"])
    f = m.callable(indexed_x=spec["x"]) if t == "indexed" else m.callable()
    return {"xy": XYFit, "indexed": IndexedFit, "hist": HistFit, "unbinned": UnbinnedFit}[t].MODEL_FUNCTION_TYPE(f)


class SharedMember(Member):
    """A Member whose kafe2 fit is constructed with an existing model function object (stored by kafe2 without copying)."""

    def __init__(self, spec, setup, model_function, minimizer=None):
        from kafe2.fit import HistFit, IndexedFit, UnbinnedFit, XYFit

        self.spec = spec = dict(spec)
        if minimizer is not None:
            spec["minimizer"] = minimizer
        t = spec["type"]
        kw = {"minimizer": spec["minimizer"]} if spec.get("minimizer") else {}
        if t != "unbinned" and spec.get("dea"):
            kw["dynamic_error_algorithm"] = spec["dea"]
        if t == "xy":
            self.fit = XYFit([np.array(spec["x"], dtype=float), np.array(spec["y"], dtype=float)], model_function=model_function, cost_function=spec["cost"], **kw)
        elif t == "indexed":
            self.fit = IndexedFit(np.array(spec["data"], dtype=float), model_function=model_function, cost_function=spec["cost"], **kw)
        elif t == "hist":
            m = Model.from_spec(spec["model"])
            be = spec.get("bin_evaluation", "cdf")
            if be == "cdf":
                be = m.callable(cdf=True, name=m.name + "_antiderivative")
            self.fit = HistFit(dsl.build_container(spec), model_function=model_function, cost_function=spec["cost"], bin_evaluation=be, density=spec.get("density", True), **kw)
        else:
            self.fit = UnbinnedFit(np.array(spec["data"], dtype=float), model_function=model_function, **kw)
        self.ref = dsl.new_ref(spec)
        for op in setup:
            self.apply(op)


# ------------------------------------------------------------------ execution
def _plots_of(res_fig, axes_key, j):
    d = {}
    for pl in res_fig.get(axes_key, {}).get("plots", []):
        if pl["fit_index"] == j:
            d[pl["type"]] = pl["artist"]
    return d


def _nfail(ctx):
    return sum(ctx._wit_per_key.values())


def check_member(ctx, plot, res_fig, axes, j, mb, h, opt, det, range_key=None):
    """All coordinate oracles for fit j in one figure. Returns True when data and model artists were compared and agreed."""
    from matplotlib.collections import LineCollection
    from matplotlib.container import BarContainer
    from matplotlib.lines import Line2D

    t = mb.spec["type"]
    p = h["values"]
    ex = Expect(mb, p)
    main = axes["main"]
    pls = _plots_of(res_fig, "main", j)
    names = list(mb.ref.model.pnames)
    free = [i for i, n in enumerate(names) if n not in mb.ref.fixed]
    det = dict(det, fit_index=j, fit_type=t, cost=mb.spec.get("cost"), parameter_values=p)

    if t == "unbinned":
        rug = pls.get("data")
        if not ctx.check("unbinned.rug", isinstance(rug, LineCollection) and rug in main.collections, lambda: dict(det, artist=repr(rug))):
            return False
        s = _segments(rug)
        if not ctx.check("unbinned.rug", s.shape == (len(ex.x), 2, 2), lambda: dict(det, why="one segment per data point expected", n_segments=len(s), n_data=len(ex.x))):
            return False
        if not ctx.close("unbinned.rug", np.column_stack([s[:, 0, 0], s[:, 1, 0]]), np.column_stack([ex.x, ex.x]), detail=det):
            return False
        ml = pls.get("model_line")
        if not ctx.check("unbinned.density-line", isinstance(ml, list) and len(ml) == 1 and isinstance(ml[0], Line2D) and ml[0] in main.lines, lambda: dict(det, artist=repr(ml))):
            return False
        xs, ys = (np.asarray(v, dtype=float) for v in ml[0].get_data())
        if not ctx.check("unbinned.density-line.range", len(xs) >= 2 and xs.min() <= ex.x.min() and xs.max() >= ex.x.max(), lambda: dict(det, line_x_range=[xs.min(), xs.max()], data_range=[ex.x.min(), ex.x.max()]), key=range_key):
            return False
        f = ex.model.f(xs, p)
        return ctx.close("unbinned.density-line", ys, f, scale=_sc(f) + 1e-300, detail=det)

    # ---- data
    if not check_errorbar(ctx, "data", pls.get("data"), main, ex.x, ex.y, ex.xerr, ex.yerr, det):
        return False

    # ---- model
    if t == "xy":
        ml = pls.get("model_line")
        if not ctx.check("model.line.drawn", isinstance(ml, list) and len(ml) == 1 and isinstance(ml[0], Line2D) and ml[0] in main.lines, lambda: dict(det, artist=repr(ml))):
            return False
        xs, ys = (np.asarray(v, dtype=float) for v in ml[0].get_data())
        if not ctx.check("model.line.range", len(xs) >= 2 and xs.min() <= ex.x.min() and xs.max() >= ex.x.max(), lambda: dict(det, line_x_range=[xs.min(), xs.max()], data_range=[ex.x.min(), ex.x.max()]), key=range_key):
            return False
        f = ex.model.f(xs, p)
        if not ctx.close("model.line", ys, f, scale=_sc(f) + 1e-300, detail=det):
            return False
        band = pls.get("model_error_band")
        have_errors = h["cov"] is not None and mb.fid != "chi2_noerr"
        if band is None:
            if not ctx.check("model.band.drawn", not have_errors, lambda: dict(det, why="the fit has valid parameter uncertainties but no band was drawn")):
                return False
        elif h["cov"] is not None:
            half = ex.band(xs, h["cov"], free, h["errors"])
            if not check_band(ctx, "model.band", band, main, xs, f, half, det):
                return False
    elif t == "hist":
        bars = pls.get("model")
        if not ctx.check("hist.model-bars", isinstance(bars, BarContainer) and len(bars.patches) == len(ex.m) and all(r in main.patches for r in bars.patches), lambda: dict(det, artist=repr(bars))):
            return False
        got = np.array([[r.get_x() + 0.5 * r.get_width(), r.get_y(), r.get_height()] for r in bars.patches], dtype=float)
        exp = np.column_stack([ex.x, np.zeros_like(ex.m), ex.m])
        if not ctx.close("hist.model-bars", got, exp, scale=np.column_stack([_sc(ex.x, ex.xerr), _sc(ex.m), _sc(ex.m)]) + 1e-300, detail=det):
            return False
        dl = pls.get("model_density")
        if not ctx.check("hist.density-proportional", isinstance(dl, list) and len(dl) == 1 and isinstance(dl[0], Line2D) and dl[0] in main.lines, lambda: dict(det, artist=repr(dl))):
            return False
        xs, ys = (np.asarray(v, dtype=float) for v in dl[0].get_data())
        f = ex.model.f(xs, p)
        good = f > 1e-6 * np.max(f)
        if not ctx.check("hist.density-line.range", len(xs) >= 2 and xs.min() <= mb.ref.edges[0] and xs.max() >= mb.ref.edges[-1] and good.sum() >= 2, lambda: dict(det, line_x_range=[xs.min(), xs.max()])):
            return False
        r = ys[good] / f[good]
        if not ctx.close("hist.density-proportional", r / np.median(r), np.ones_like(r), tol=PROP, scale=1.0, detail=lambda_detail(det, ratio_line_over_density=r)):
            return False
    else:  # indexed
        first = pls.get("model")
        if not ctx.check("indexed.model-steps", isinstance(first, Line2D) and first in main.lines, lambda: dict(det, artist=repr(first))):
            return False
        k = main.lines.index(first)
        steps = list(main.lines)[k : k + len(ex.m)]
        ok = len(steps) == len(ex.m) and all(len(s.get_xdata()) == 2 for s in steps)
        if not ctx.check("indexed.model-steps", ok, lambda: dict(det, why="one horizontal step per data point expected after the returned artist", n_lines=len(steps))):
            return False
        got = np.array([[0.5 * (s.get_xdata()[0] + s.get_xdata()[1]), s.get_ydata()[0], s.get_ydata()[1]] for s in steps], dtype=float)
        exp = np.column_stack([ex.x, ex.m, ex.m])
        if not ctx.close("indexed.model-steps", got, exp, scale=np.column_stack([_sc(ex.x) + 1.0, _sc(ex.m), _sc(ex.m)]) + 1e-300, detail=det):
            return False

    # ---- ratio / residual / pull
    panel = opt["panel"]
    if panel:
        pax = axes[panel]
        pp = _plots_of(res_fig, panel, j)
        art = pp.get(panel)
        if panel == "ratio":
            val = ex.y / ex.m
            bar = ex.yerr / np.abs(ex.m)
            if not check_errorbar(ctx, "ratio", art, pax, ex.x, val, ex.xerr, bar, dict(det, panel=panel), obs_marker="ratio.value"):
                return False
        elif panel == "residual":
            val = ex.y - ex.m
            if not check_errorbar(ctx, "residual", art, pax, ex.x, val, ex.xerr, ex.yerr, dict(det, panel=panel), obs_marker="residual.value"):
                return False
        else:
            val = (ex.y - ex.m) / ex.yerr
            lo, hi = np.minimum(val, 0.0), np.maximum(val, 0.0)
            if not check_errorbar(ctx, "pull", art, pax, ex.x, val, np.ones_like(ex.x), None, dict(det, panel=panel), ybar_asym=(lo, hi), xbar_centre_only=True, obs_marker="pull.value", obs_ybar="pull.bar"):
                return False
        if t == "xy" and panel in ("ratio", "residual"):
            pb = pp.get(panel + "_error_band")
            if pb is not None and h["cov"] is not None:
                ml = pls.get("model_line")
                xs = np.asarray(ml[0].get_xdata(), dtype=float)
                f = ex.model.f(xs, p)
                half = ex.band(xs, h["cov"], free, h["errors"])
                if panel == "ratio":
                    if np.all(np.abs(f) > 1e-12 * np.max(np.abs(f))):
                        if not check_band(ctx, "panel.band", pb, pax, xs, np.ones_like(xs), half, dict(det, panel=panel), divide_by=np.abs(f)):
                            return False
                elif not check_band(ctx, "panel.band", pb, pax, xs, np.zeros_like(xs), half, dict(det, panel=panel)):
                    return False
    return True


def _run_case(ctx, case):
    from kafe2 import Plot

    ctx.reseed_legacy()
    opt = case["options"]
    want_asym = bool(opt["asym"])
    members = []
    shared = bool(case.get("shared_model_function"))
    mfo = None
    for m in case["members"]:
        if shared:
            if mfo is None:
                mfo = model_function_object(m["spec"])
            mb = SharedMember(m["spec"], m["setup"], mfo, minimizer="iminuit")
        else:
            mb = Member(m["spec"], m["setup"], minimizer="iminuit")
        if not mb.admissible():
            ctx.discard("configuration-not-admissible")
            return False
        ctx.op("do_fit")
        try:
            with time_limit(30):
                mb.fit.do_fit()
                if want_asym:
                    mb.fit.asymmetric_parameter_errors
        except OpTimeout:
            ctx.discard("fit-timeout")
            return False
        except Exception:
            ctx.discard("fit-raised")
            return False
        # reading results may still move an iminuit fit by ~1e-3 sigma after MINOS (property C08): read until two
        # consecutive snapshots agree, so that the plot is compared with one well-defined state
        try:
            prev = held(mb.fit, want_asym)
            for _ in range(4):
                cur = held(mb.fit, want_asym)
                if same_held(prev, cur):
                    break
                prev = cur
            else:
                ctx.discard("fit-state-does-not-settle")
                return False
        except Exception:
            ctx.discard("results-not-readable")
            return False
        mb.sync_from_fit()
        free_idx = [i for i, n in enumerate(mb.ref.model.pnames) if n not in mb.ref.fixed]
        # (an uncertainty below the floating-point resolution of the value it belongs to is as good as zero: seen 1.7e-46 on a
        # logistic model fitted into a step function, where numdifftools then has no step to differentiate with)
        if cur["errors"] is None or not np.all(np.isfinite(cur["errors"][free_idx])) or np.any(cur["errors"][free_idx] <= 4 * np.finfo(float).eps * np.abs(np.asarray(mb.fit.parameter_values, dtype=float)[free_idx])):
            ctx.discard("fit-degenerate-no-valid-parameter-errors")
            return False
        if not np.all(np.isfinite(mb.ref.p)) or not mb.admissible():
            ctx.discard("fit-result-not-admissible")
            return False
        members.append(mb)
    exps = [Expect(mb, mb.ref.p) for mb in members]
    if opt["panel"] == "pull" and any(ex.type == "unbinned" or np.any(ex.yerr <= 0) or not np.all(np.isfinite(ex.yerr)) for ex in exps):
        ctx.discard("pull-undefined-zero-uncertainty")
        return False
    if opt["panel"] == "ratio" and any(np.any(np.abs(ex.m) <= 1e-12 * np.max(np.abs(ex.m))) or not np.all(np.isfinite(ex.m)) for ex in exps):
        ctx.discard("ratio-undefined-vanishing-model-value")
        return False
    try:
        before = [held(mb.fit, want_asym) for mb in members]
    except Exception:
        ctx.discard("results-not-readable")
        return False
    if any(not np.all(np.isfinite(h["values"])) or (h["errors"] is not None and not np.all(np.isfinite(h["errors"]))) for h in before):
        ctx.discard("results-not-finite")
        return False

    # ---- coverage bookkeeping
    ctx.stratum(*case["stratum"])
    ctx.stratum("fits", len(members))
    for m, mb in zip(case["members"], members):
        ctx.stratum("ucfg", mb.spec["type"], m["ucfg"], mb.spec.get("cost"))
        if m.get("fixed"):
            ctx.stratum("fixed-parameter")
    if any(ex.type != "unbinned" and np.any(ex.m < 0) for ex in exps):
        ctx.stratum("negative-model")
    if shared:
        ctx.op("fits-on-one-model-function-object")
        ctx.stratum("shared-model-function", members[0].spec["type"])
        ctx.stratum("shared-model-function", "separate-figures" if opt["separate"] else "one-figure")
        ctx.add_to_set("shared-model-function", "%s|%d|%s|%s|%s" % (members[0].spec["type"], len(members), members[0].spec["model"]["family"], bool(opt["separate"]), opt["panel"]))

    # ---- the plot
    fits = [mb.fit for mb in members]
    ctx.op("Plot.plot")
    kw = {}
    if opt["panel"]:
        kw[opt["panel"]] = True
    if want_asym:
        kw["asymmetric_parameter_errors"] = True
    try:
        with time_limit(120):
            plot = Plot(fits if len(fits) > 1 else fits[0], separate_figures=bool(opt["separate"]))
            if opt["x_scale"] != "linear":
                plot.x_scale = opt["x_scale"]
            if opt["y_scale"] != "linear":
                plot.y_scale = opt["y_scale"]
            res = plot.plot(**kw)
    except OpTimeout:
        ctx.discard("plot-timeout")
        return False
    except Exception as e:
        ctx.check("plot.no-exception", False, {"exception": e, "traceback": fmt_exc(), "options": opt, "fit_types": [mb.spec["type"] for mb in members], "costs": [mb.spec.get("cost") for mb in members], "declared_sources": [len(mb.ref.sources) for mb in members]}, key=classify_exception(e, case, members))
        return False
    ctx.check("plot.no-exception", True)
    ok_first = verify_plot(ctx, case, plot, res, members, before, opt, want_asym)
    if not ok_first or not case.get("replot"):
        return ok_first
    # ---- the same Plot object once more after the fits have changed: fit -> plot() -> fix a parameter elsewhere -> do_fit() -> plot()
    ctx.op("Plot.plot.again")
    for mb in members:
        names = list(mb.ref.model.pnames)
        free = [n for n in names if n not in mb.ref.fixed]
        if len(free) < 2:
            ctx.discard("replot-needs-two-free-parameters")
            return ok_first
        n = free[0]
        k = names.index(n)
        err = float(before[members.index(mb)]["errors"][k])
        try:
            mb.apply(["fix_parameter", n, float(mb.ref.p[k] + 3.0 * err)])
            with time_limit(30):
                mb.fit.do_fit()
                if want_asym:
                    mb.fit.asymmetric_parameter_errors
            prev = held(mb.fit, want_asym)
            for _ in range(4):
                cur = held(mb.fit, want_asym)
                if same_held(prev, cur):
                    break
                prev = cur
            else:
                ctx.discard("fit-state-does-not-settle")
                return ok_first
        except (Exception, OpTimeout):
            ctx.discard("refit-for-second-plot-failed")
            return ok_first
        mb.sync_from_fit()
        free_idx = [i for i, q in enumerate(names) if q not in mb.ref.fixed]
        if cur["errors"] is None or not np.all(np.isfinite(cur["errors"][free_idx])) or np.any(cur["errors"][free_idx] <= 0) or not np.all(np.isfinite(mb.ref.p)) or not mb.admissible():
            ctx.discard("refit-for-second-plot-degenerate")
            return ok_first
    exps = [Expect(mb, mb.ref.p) for mb in members]
    if opt["panel"] == "ratio" and any(np.any(np.abs(ex.m) <= 1e-12 * np.max(np.abs(ex.m))) or not np.all(np.isfinite(ex.m)) for ex in exps):
        ctx.discard("ratio-undefined-vanishing-model-value")
        return ok_first
    before2 = [held(mb.fit, want_asym) for mb in members]
    try:
        with time_limit(120):
            res2 = plot.plot(**kw)
    except OpTimeout:
        ctx.discard("plot-timeout")
        return ok_first
    except Exception as e:
        ctx.check("plot.no-exception", False, {"exception": e, "traceback": fmt_exc(), "options": opt, "second_plot_call_on_same_object": True, "fit_types": [mb.spec["type"] for mb in members]}, key=classify_exception(e, case, members))
        return False
    ctx.stratum("replot-after-refit")
    return verify_plot(ctx, case, plot, res2, members, before2, opt, want_asym, second=True) and ok_first


def verify_plot(ctx, case, plot, res, members, before, opt, want_asym, second=False):
    after = [held(mb.fit, want_asym) for mb in members]
    moved = not all(same_held(a, b) for a, b in zip(before, after))
    if moved:
        ctx.discard("fit-state-changed-during-plot")
        return False

    nfig = len(members) if opt["separate"] else 1
    det0 = {"options": opt, "second_plot_call_on_same_object": True} if second else {"options": opt}
    if not ctx.check("plot.figures", isinstance(res, list) and len(res) == nfig and len(plot.figures) == nfig * (2 if second else 1) and len(plot.axes) == len(plot.figures), lambda: dict(det0, n_results=len(res), n_figures=len(plot.figures), expected=nfig)):
        return False
    # every plot() call opens its own figures and appends them: this call's are the last nfig
    figs, axs = plot.figures[-nfig:], plot.axes[-nfig:]
    all_ok = True
    shown = []
    for fi in range(nfig):
        axes = axs[fi]
        idx = [fi] if opt["separate"] else list(range(len(members)))
        want_axes = {"main"} | ({opt["panel"]} if opt["panel"] else set())
        if not ctx.check("plot.axes", want_axes <= set(axes) and set(res[fi]) >= want_axes, lambda: dict(det0, axes=list(axes), results=list(res[fi]))):
            return False
        if not ctx.check("plot.scales", axes["main"].get_xscale() == opt["x_scale"] and axes["main"].get_yscale() == opt["y_scale"], lambda: dict(det0, xscale=axes["main"].get_xscale(), yscale=axes["main"].get_yscale())):
            return False
        for j in idx:
            n0 = _nfail(ctx)
            ok = check_member(ctx, plot, res[fi], axes, j, members[j], after[j], opt, dict(det0, figure=fi, n_fits_on_plot=len(idx)), range_key=lambda: classify_logx(case, members))
            if _nfail(ctx) != n0:
                return False
            all_ok = all_ok and ok
        # ---- legend of this figure
        legs = figs[fi].legends
        texts = [t.get_text() for lg in legs for t in lg.get_texts()]
        infos = [s for s in texts if "hookrightarrow" in s]
        if not ctx.check("legend.count", len(legs) == 1 and len(infos) == len(idx), lambda: dict(det0, figure=fi, n_legends=len(legs), n_fit_infos=len(infos), n_fits=len(idx), texts=texts)):
            return False
        shared = bool(case.get("shared_model_function"))
        for text, j in zip(infos, idx):
            n0 = _nfail(ctx)
            sw = [m for k, m in enumerate(members) if k != j] if shared else None
            ok = check_legend_text(ctx, text, members[j], after[j], want_asym, dict(det0, figure=fi, fit_index=j, n_fits_on_plot=len(idx), shared_model_function=shared), shared_with=sw)
            if _nfail(ctx) != n0:
                return False
            all_ok = all_ok and ok
        if shared:
            shown.extend("\n".join(ln.strip() for ln in s.split("\n")[1 : 1 + len(members[j].ref.model.pnames)]) for s, j in zip(infos, idx))
    if len(set(shown)) > 1:
        # the fits built on one model function object have results that display differently: a legend block written from
        # another fit's numbers cannot go unnoticed
        ctx.stratum("shared-model-function", "legends-distinguishable")
    return all_ok


def run_case(ctx, case):
    import matplotlib.pyplot as plt

    try:
        return _run_case(ctx, case)
    finally:
        plt.close("all")


def run_shard(ctx):
    idx = 0
    retries = 0
    while ctx.more():
        case = gen_case(ctx.rng, ctx.tier, idx, ctx.shard, ctx.nshards)
        ctx.begin_case(case)
        nontrivial = False
        d0 = sum(ctx.discarded.values())
        try:
            nontrivial = run_case(ctx, case)
        except Exception:
            ctx.violation(None, "unexpected-exception", {"traceback": fmt_exc()})
        ctx.end_case(nontrivial=nontrivial)
        # an enumerated stratum whose draw had to be discarded (fit failed, configuration not admissible) is drawn again
        if idx * ctx.nshards + ctx.shard < N_ENUM and sum(ctx.discarded.values()) > d0 and retries < 5:
            retries += 1
            continue
        retries = 0
        idx += 1


def replay(ctx, case):
    ctx.begin_case(case)
    try:
        run_case(ctx, case)
    except Exception:
        ctx.violation(None, "unexpected-exception", {"traceback": fmt_exc()})
    ctx.end_case(nontrivial=True)
