"""JSON case DSL for fits: one spec + a list of ops drives (a) the real kafe2 object, (b) the reference
model (vlib/ref.py), (c) replay.  See DESIGN.md appendix A.

spec = {"type": "xy"|"indexed"|"hist"|"unbinned", "model": Model.spec(), "cost": "<alias>",
        "x": [...], "y": [...] | "data": [...] | "edges": [...], "entries": [...],
        "minimizer": "iminuit"|"scipy"|None, "dea": "nonlinear"|"iterative", "bin_evaluation": "cdf"|"numerical"|...}
ops  = [["add_error", {...}], ["read", "cost_function_value"], ...]
"""
import copy

import numpy as np

from .models import Model
from .ref import RefFit


def build_container(spec):
    from kafe2.fit import HistContainer, IndexedContainer, UnbinnedContainer, XYContainer

    t = spec["type"]
    if t == "xy":
        return XYContainer(np.array(spec["x"], dtype=float), np.array(spec["y"], dtype=float))
    if t == "indexed":
        return IndexedContainer(np.array(spec["data"], dtype=float))
    if t == "hist":
        e = spec["edges"]
        return HistContainer(n_bins=len(e) - 1, bin_range=(e[0], e[-1]), bin_edges=list(e), fill_data=list(spec["entries"]))
    if t == "unbinned":
        return UnbinnedContainer(np.array(spec["data"], dtype=float))
    raise KeyError(t)


def build_fit(spec, data=None):
    """Construct the real kafe2 fit described by spec (no sources, no constraints yet)."""
    from kafe2.fit import HistFit, IndexedFit, UnbinnedFit, XYFit

    t = spec["type"]
    m = Model.from_spec(spec["model"])
    kw = {}
    if spec.get("minimizer"):
        kw["minimizer"] = spec["minimizer"]
    if t != "unbinned" and spec.get("dea"):
        kw["dynamic_error_algorithm"] = spec["dea"]
    if t == "xy":
        d = data if data is not None else [np.array(spec["x"], dtype=float), np.array(spec["y"], dtype=float)]
        return XYFit(d, model_function=m.callable(), cost_function=spec["cost"], **kw)
    if t == "indexed":
        d = data if data is not None else np.array(spec["data"], dtype=float)
        return IndexedFit(d, model_function=m.callable(indexed_x=spec["x"]), cost_function=spec["cost"], **kw)
    if t == "hist":
        d = data if data is not None else build_container(spec)
        be = spec.get("bin_evaluation", "cdf")
        if be == "cdf":
            be = m.callable(cdf=True, name=m.name + "_antiderivative")
        return HistFit(d, model_function=m.callable(), cost_function=spec["cost"], bin_evaluation=be, density=spec.get("density", True), **kw)
    if t == "unbinned":
        d = data if data is not None else np.array(spec["data"], dtype=float)
        return UnbinnedFit(d, model_function=m.callable(), **kw)
    raise KeyError(t)


def _axis_kw(fit_type, a):
    return {"axis": a["axis"]} if fit_type == "xy" else {}


def apply_live(fit, spec, op):
    """Execute one mutator op on the real fit. Returns the return value."""
    k = op[0]
    t = spec["type"]
    if k == "add_error":
        a = op[1]
        err = a["err"]
        err = np.array(err, dtype=float) if isinstance(err, (list, tuple)) else err
        return fit.add_error(err_val=err, name=a["name"], correlation=a.get("corr", 0.0), relative=a.get("relative", False), reference=a.get("reference", "data"), **_axis_kw(t, a))
    if k == "add_matrix_error":
        a = op[1]
        ev = a.get("err_val")
        ev = np.array(ev, dtype=float) if isinstance(ev, (list, tuple)) else ev
        return fit.add_matrix_error(
            err_matrix=np.array(a["matrix"], dtype=float), matrix_type=a["matrix_type"], name=a["name"], err_val=ev, relative=a.get("relative", False), reference=a.get("reference", "data"), **_axis_kw(t, a)
        )
    if k == "disable_error":
        return fit.disable_error(op[1])
    if k == "enable_error":
        return fit.enable_error(op[1])
    if k == "add_parameter_constraint":
        a = op[1]
        return fit.add_parameter_constraint(name=a["name"], value=a["value"], uncertainty=a["uncertainty"], relative=a.get("relative", False))
    if k == "add_matrix_parameter_constraint":
        a = op[1]
        return fit.add_matrix_parameter_constraint(names=a["names"], values=a["values"], matrix=a["matrix"], matrix_type=a["matrix_type"], uncertainties=a.get("uncertainties"), relative=a.get("relative", False))
    if k == "set_parameter_values":
        return fit.set_parameter_values(**op[1])
    if k == "set_all_parameter_values":
        return fit.set_all_parameter_values(list(op[1]))
    if k == "fix_parameter":
        return fit.fix_parameter(op[1], op[2] if len(op) > 2 else None)
    if k == "release_parameter":
        return fit.release_parameter(op[1])
    if k == "limit_parameter":
        return fit.limit_parameter(op[1], op[2], op[3])
    if k == "unlimit_parameter":
        return fit.unlimit_parameter(op[1])
    if k == "do_fit":
        return fit.do_fit()
    if k == "set_data":
        ns = op[1]
        if ns.get("as_container"):
            c = build_container(dict(spec, **ns))
            for s in ns.get("container_sources", []):
                apply_container_source(c, spec["type"], s)
            fit.data = c
        elif t == "xy":
            fit.data = [np.array(ns["x"], dtype=float), np.array(ns["y"], dtype=float)]
        elif t == "hist":
            fit.data = build_container(dict(spec, **ns))
        else:
            fit.data = np.array(ns["data"], dtype=float)
        return None
    raise KeyError(k)


def apply_container_source(c, fit_type, s):
    kw = {"axis": s["axis"]} if fit_type == "xy" else {}
    if s["kind"] == "simple":
        err = s["err"]
        err = np.array(err, dtype=float) if isinstance(err, (list, tuple)) else err
        c.add_error(err_val=err, name=s["name"], correlation=s.get("corr", 0.0), relative=s.get("relative", False), **kw)
    else:
        ev = s.get("err_val")
        ev = np.array(ev, dtype=float) if isinstance(ev, (list, tuple)) else ev
        c.add_matrix_error(err_matrix=np.array(s["matrix"], dtype=float), matrix_type=s["matrix_type"], name=s["name"], err_val=ev, relative=s.get("relative", False), **kw)


def apply_ref(ref, spec, op):
    """Mirror a mutator op in the reference state (declared inputs only)."""
    k = op[0]
    if k == "add_error":
        a = op[1]
        ref.sources.append(
            {"kind": "simple", "axis": a.get("axis"), "err": a["err"], "corr": a.get("corr", 0.0), "relative": a.get("relative", False), "reference": a.get("reference", "data"), "enabled": True, "name": a["name"]}
        )
    elif k == "add_matrix_error":
        a = op[1]
        ref.sources.append(
            {
                "kind": "matrix",
                "axis": a.get("axis"),
                "matrix": a["matrix"],
                "matrix_type": a["matrix_type"],
                "err_val": a.get("err_val"),
                "relative": a.get("relative", False),
                "reference": a.get("reference", "data"),
                "enabled": True,
                "name": a["name"],
            }
        )
    elif k in ("disable_error", "enable_error"):
        for s in ref.sources:
            if s["name"] == op[1]:
                s["enabled"] = k == "enable_error"
    elif k == "add_parameter_constraint":
        a = op[1]
        ref.constraints.append({"kind": "simple", "index": ref.model.pnames.index(a["name"]), "value": a["value"], "uncertainty": a["uncertainty"], "relative": a.get("relative", False)})
    elif k == "add_matrix_parameter_constraint":
        a = op[1]
        ref.constraints.append(
            {
                "kind": "matrix",
                "indices": [ref.model.pnames.index(n) for n in a["names"]],
                "values": a["values"],
                "matrix": a["matrix"],
                "matrix_type": a["matrix_type"],
                "uncertainties": a.get("uncertainties"),
                "relative": a.get("relative", False),
            }
        )
    elif k == "set_parameter_values":
        for n, v in op[1].items():
            ref.p[ref.model.pnames.index(n)] = v
    elif k == "set_all_parameter_values":
        ref.p = np.array(op[1], dtype=float)
    elif k == "fix_parameter":
        i = ref.model.pnames.index(op[1])
        if len(op) > 2 and op[2] is not None:
            ref.p[i] = op[2]
        ref.fixed[op[1]] = ref.p[i]
    elif k == "release_parameter":
        ref.fixed.pop(op[1], None)
    elif k == "limit_parameter":
        ref.limits[op[1]] = (op[2], op[3])
    elif k == "unlimit_parameter":
        ref.limits.pop(op[1], None)
    elif k == "set_data":
        ns = op[1]
        # documented semantics of the data setter: the data container is replaced *with its sources*
        # (a raw array brings none) and the parametric model is rebuilt (model-referenced sources are dropped)
        ref.set_data(dict(spec, **ns))
        ref.sources = []
        for s in ns.get("container_sources", []):
            d = dict(s)
            d.setdefault("reference", "data")
            d["enabled"] = True
            ref.sources.append(d)
    elif k == "do_fit":
        pass  # the reference has no minimiser; callers synchronise ref.p from the fit afterwards
    else:
        raise KeyError(k)


def new_ref(spec):
    return RefFit(copy.deepcopy(spec))
