"""Seeded generators: data, PSD covariances, uncertainty sources, constraints, fit specs (DESIGN.md §2)."""
import numpy as np

from .models import DENSITIES, FAMILIES, Model

LINEAR = [f for f, v in FAMILIES.items() if v[4]]
NONLINEAR = [f for f, v in FAMILIES.items() if not v[4]]


def rfloat(rng, lo, hi, nd=4):
    return float(np.round(rng.uniform(lo, hi), nd))


def gen_x(rng, n, kind=None):
    kind = kind or str(rng.choice(["increasing", "shuffled", "duplicates", "shifted"]))
    x = np.sort(rng.uniform(0.5, 6.0, size=n))
    # keep points apart so that design matrices are well conditioned
    x = x + np.arange(n) * 0.05
    if kind == "shuffled":
        rng.shuffle(x)
    elif kind == "duplicates" and n > 3:
        x[int(rng.integers(1, n))] = x[0]
    elif kind == "shifted":
        x = x - 0.3
    return [float(np.round(v, 4)) for v in x]


def gen_psd(rng, n, scale=1.0, kind=None):
    """random symmetric positive definite matrix with moderate condition number"""
    kind = kind or str(rng.choice(["lowrank+diag", "dense", "banded"]))
    if kind == "lowrank+diag":
        a = rng.normal(size=(n, max(1, n // 3)))
        m = a @ a.T + np.diag(rng.uniform(0.5, 1.5, size=n))
    elif kind == "dense":
        a = rng.normal(size=(n, n))
        m = a @ a.T / n + np.eye(n) * 0.5
    else:
        m = np.eye(n) * rng.uniform(0.8, 1.5)
        for i in range(n - 1):
            m[i, i + 1] = m[i + 1, i] = rng.uniform(0.0, 0.35)
    m = (m + m.T) / 2.0
    d = np.sqrt(np.diag(m))
    m = m / np.outer(d, d) * scale**2  # unit-diagonal times scale^2, then per-point size variation
    s = rng.uniform(0.7, 1.3, size=n)
    m = m * np.outer(s, s)
    m = (m + m.T) / 2.0
    return np.round(m, 10)


def cov_to_cor(m):
    d = np.sqrt(np.diag(m))
    c = m / np.outer(d, d)
    c = (c + c.T) / 2.0
    np.fill_diagonal(c, 1.0)
    return c, d


def gen_source(rng, n, fit_type, name, yscale=1.0, xscale=0.1, allow=("simple", "matrix"), allow_model=True, allow_x=True, allow_relative=True, force=None):
    """Return an add_error / add_matrix_error op. `force` is a dict overriding random choices."""
    f = dict(force or {})
    axis = None
    if fit_type == "xy":
        axis = f.get("axis") or ("x" if (allow_x and rng.random() < 0.25) else "y")
        # axis spelled as name or index
        axis_spelling = axis if rng.random() < 0.7 else {"x": 0, "y": 1}[axis]
    kind = f.get("kind") or str(rng.choice(list(allow)))
    relative = f.get("relative", bool(allow_relative and rng.random() < 0.4))
    reference = f.get("reference") or ("model" if (allow_model and rng.random() < 0.3) else "data")
    if kind == "matrix" and reference == "model" and relative:
        relative = False  # documented NotImplementedError
    base = (0.08 if relative else (xscale if axis == "x" else yscale * 0.1)) * rng.uniform(0.5, 2.0)
    if axis == "x" and relative:
        base = 0.03 * rng.uniform(0.5, 2.0)
    if kind == "simple":
        shape = f.get("shape") or str(rng.choice(["scalar", "constvec", "vec", "veczero"]))
        if shape == "scalar":
            err = float(np.round(base, 6))
        elif shape == "constvec":
            err = [float(np.round(base, 6))] * n
        else:
            err = [float(v) for v in np.round(base * rng.uniform(0.5, 1.5, size=n), 6)]
            if shape == "veczero" and n > 1:
                err[int(rng.integers(0, n))] = 0.0
        corr = f.get("corr")
        if corr is None:
            corr = float(rng.choice([0.0, 0.0, 1.0, float(np.round(rng.uniform(0.05, 0.95), 3))]))
        a = {"err": err, "relative": relative, "reference": reference, "corr": corr, "name": name}
        if fit_type == "xy":
            a["axis"] = axis_spelling
        return ["add_error", a]
    m = gen_psd(rng, n, scale=base)
    mtype = f.get("matrix_type") or str(rng.choice(["cov", "cor"]))
    a = {"relative": relative, "reference": reference, "name": name}
    if mtype == "cov":
        a.update(matrix=m.tolist(), matrix_type="cov", err_val=None)
    else:
        c, d = cov_to_cor(m)
        a.update(matrix=np.round(c, 12).tolist(), matrix_type="cor", err_val=[float(v) for v in np.round(d, 8)])
        # exact symmetry / unit diagonal after rounding
        mm = np.array(a["matrix"])
        mm = (mm + mm.T) / 2.0
        np.fill_diagonal(mm, 1.0)
        a["matrix"] = mm.tolist()
    if fit_type == "xy":
        a["axis"] = axis_spelling
    return ["add_matrix_error", a]


def norm_axis(a):
    """axis spelling -> 'x' / 'y' / None"""
    if a in (0, "x"):
        return "x"
    if a in (1, "y"):
        return "y"
    return None


def gen_constraint(rng, pnames, pvals, force_kind=None):
    kind = force_kind or ("matrix" if (len(pnames) >= 2 and rng.random() < 0.4) else "simple")
    if kind == "simple":
        i = int(rng.integers(0, len(pnames)))
        v = float(np.round(pvals[i] * rng.uniform(0.8, 1.2) + rng.normal() * 0.05, 5))
        if v == 0.0:
            v = 0.1
        rel = bool(rng.random() < 0.4)
        unc = float(np.round(rng.uniform(0.05, 0.3), 4)) if rel else float(np.round(abs(v) * rng.uniform(0.05, 0.3) + 0.01, 5))
        return ["add_parameter_constraint", {"name": pnames[i], "value": v, "uncertainty": unc, "relative": rel}]
    k = int(rng.integers(2, min(3, len(pnames)) + 1))
    idx = [int(i) for i in rng.choice(len(pnames), size=k, replace=False)]
    vals = [float(np.round(pvals[i] * rng.uniform(0.8, 1.2) + rng.normal() * 0.05 + 0.01, 5)) for i in idx]
    vals = [v if abs(v) > 1e-3 else 0.1 for v in vals]
    rel = bool(rng.random() < 0.4)
    scale = 0.15 if rel else 0.15 * float(np.mean(np.abs(vals)) + 0.05)
    m = gen_psd(rng, k, scale=scale, kind="dense")
    a = {"names": [pnames[i] for i in idx], "values": vals, "relative": rel}
    if rng.random() < 0.5:
        a.update(matrix=m.tolist(), matrix_type="cov", uncertainties=None)
    else:
        c, d = cov_to_cor(m)
        mm = np.round(c, 12)
        mm = (mm + mm.T) / 2.0
        np.fill_diagonal(mm, 1.0)
        a.update(matrix=mm.tolist(), matrix_type="cor", uncertainties=[float(v) for v in np.round(d, 8)])
    return ["add_matrix_parameter_constraint", a]


def perturbed_params(rng, m, rel=0.15):
    """a parameter point near the model defaults at which the model stays well behaved"""
    p = np.array(m.defaults, dtype=float)
    q = p * (1.0 + rng.uniform(-rel, rel, size=len(p))) + rng.uniform(-0.02, 0.02, size=len(p))
    return [float(np.round(v, 6)) for v in q]


def gen_xy_spec(rng, family=None, n=None, cost="chi2", counts=False, minimizer=None, dea="nonlinear", noise=0.1, counts_from_model=None):
    """counts_from_model=s: counts are drawn from the model itself with its unit-carrying parameters scaled by s (well-posed
    Poisson problem; the truth is returned in spec['truth'] and becomes the model's default values)"""
    family = family or str(rng.choice(list(FAMILIES)))
    m = Model(family)
    if counts and counts_from_model:
        from .models import UNIT_PARAMS

        n = n or int(rng.integers(max(len(m.pnames) + 1, 3), 11))
        x = gen_x(rng, n, kind="increasing" if family == "powerlaw" else None)
        if family == "powerlaw":
            x = [abs(v) + 0.2 for v in x]
        truth = perturbed_params(rng, m, 0.05)
        truth = [float(np.round(v * counts_from_model, 5)) if nm in UNIT_PARAMS[family] else v for nm, v in zip(m.pnames, truth)]
        lam = m.f(np.array(x), truth)
        if np.any(lam <= 0.5):
            # keep expectations positive: raise the offset-like parameter if there is one, else fall back to |lambda| + 1
            lam = np.abs(lam) + 1.0
        y = rng.poisson(lam).astype(float)
        m2 = Model(family, defaults=truth)
        return {"type": "xy", "model": m2.spec(), "cost": cost, "x": x, "y": [float(v) for v in y], "minimizer": minimizer, "dea": dea, "truth": truth}
    n = n or int(rng.integers(max(len(m.pnames) + 1, 3), 11))
    x = gen_x(rng, n, kind="increasing" if family == "powerlaw" else None)
    if family == "powerlaw":
        x = [abs(v) + 0.2 for v in x]
    ptrue = perturbed_params(rng, m, 0.1)
    y = m.f(np.array(x), ptrue)
    if counts:
        # counts data for Poisson-type costs: scale so that expectations are O(10)
        y = rng.poisson(np.clip(np.abs(y) * 4.0 + 1.0, 0.5, 200.0)).astype(float)
    else:
        y = y + rng.normal(size=n) * noise * (np.abs(y).mean() + 0.1)
    spec = {"type": "xy", "model": m.spec(), "cost": cost, "x": x, "y": [float(np.round(v, 5)) for v in y], "minimizer": minimizer, "dea": dea}
    return spec


def gen_indexed_spec(rng, family=None, n=None, cost="chi2", counts=False, minimizer=None, dea="nonlinear", noise=0.1, counts_from_model=None):
    s = gen_xy_spec(rng, family, n, cost, counts, minimizer, dea, noise, counts_from_model)
    s["type"] = "indexed"
    s["data"] = s.pop("y")
    return s


def gen_hist_spec(rng, density=None, cost="nll_poisson", n_bins=None, n_entries=None, minimizer=None, dea="nonlinear"):
    density = density or str(rng.choice(["normal", "expdens", "mixture"]))
    m = Model(density, density=True)
    n_bins = n_bins or int(rng.integers(3, 9))
    n_entries = n_entries or int(rng.integers(30, 200))
    p = m.defaults
    if density == "expdens":
        entries = rng.exponential(p[0], size=n_entries)
        lo, hi = 0.0, 5.0
    elif density == "normal":
        entries = rng.normal(p[0], p[1], size=n_entries)
        lo, hi = -3.5, 4.0
    else:
        k = rng.random(size=n_entries) < p[0]
        entries = np.where(k, rng.normal(p[1], p[2], size=n_entries), rng.normal(p[3], p[4], size=n_entries))
        lo, hi = -3.5, 5.0
    entries = entries[(entries >= lo) & (entries < hi)]
    if rng.random() < 0.5:
        edges = np.linspace(lo, hi, n_bins + 1)
    else:
        inner = np.sort(rng.uniform(lo + 0.3, hi - 0.3, size=n_bins - 1))
        edges = np.concatenate([[lo], inner, [hi]])
        edges = edges + np.arange(n_bins + 1) * 1e-3
    return {
        "type": "hist",
        "model": m.spec(),
        "cost": cost,
        "edges": [float(np.round(e, 5)) for e in edges],
        "entries": [float(np.round(e, 6)) for e in entries],
        "density": True,
        "bin_evaluation": "cdf",
        "minimizer": minimizer,
        "dea": dea,
    }


def gen_unbinned_spec(rng, density=None, n=None, minimizer=None):
    density = density or str(rng.choice(["normal", "expdens", "mixture"]))
    m = Model(density, density=True)
    n = n or int(rng.integers(8, 60))
    p = m.defaults
    if density == "expdens":
        data = rng.exponential(p[0], size=n) + 1e-3
    elif density == "normal":
        data = rng.normal(p[0], p[1], size=n)
    else:
        k = rng.random(size=n) < p[0]
        data = np.where(k, rng.normal(p[1], p[2], size=n), rng.normal(p[3], p[4], size=n))
    return {"type": "unbinned", "model": m.spec(), "cost": "nll", "data": [float(np.round(v, 6)) for v in data], "minimizer": minimizer}
