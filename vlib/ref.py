"""Pure-numpy reference semantics, written from the documentation (docstrings of kafe2/fit/_base/cost.py,
doc/src/parts/mathematical_foundations.rst) — no imports from kafe2.

RefFit keeps *what the user declared* as plain data (data, model family, uncertainty sources with their
enabled flags, constraints, parameter values, fixed/limited) and evaluates the documented quantities
from scratch on every call.
"""
import math

import numpy as np
from scipy.special import gammaln

from .models import Model

TWO_PI = 2.0 * math.pi

# ------------------------------------------------------------------ cost identifiers -> documented formula
# canonical formula ids; every alias string of the three STRING_TO_COST_FUNCTION tables is mapped by hand
# (from the documentation / the meaning of the name, not by importing kafe2's table)
COST_ALIASES = {
    "chi2": "chi2_cov",
    "chi2_fast": "chi2_cov",
    "chi_2": "chi2_cov",
    "chi_2_fast": "chi2_cov",
    "chisquared": "chi2_cov",
    "chisquared_fast": "chi2_cov",
    "chi_squared": "chi2_cov",
    "chi_squared_fast": "chi2_cov",
    "chi2_no_errors": "chi2_noerr",
    "chi2_pointwise": "chi2_pw",
    "chi2_pointwise_errors": "chi2_pw",
    "chi2_covariance": "chi2_cov",
    "chi2_covariance_fast": "chi2_cov",
    "nll": "nll_poisson",
    "poisson": "nll_poisson",
    "nll-poisson": "nll_poisson",
    "nll_poisson": "nll_poisson",
    "nllpoisson": "nll_poisson",
    "nll-gaussian": "nll_gauss",
    "nll_gaussian": "nll_gauss",
    "nllgaussiann": "nll_gauss",
    "negloglikelihood": "nll_poisson",
    "neg_log_likelihood": "nll_poisson",
    "nllr": "nllr_poisson",
    "nllr-poisson": "nllr_poisson",
    "nllr_poisson": "nllr_poisson",
    "nllrpoisson": "nllr_poisson",
    "nllr-gaussian": "nllr_gauss",
    "nllr_gaussian": "nllr_gauss",
    "nllrgaussian": "nllr_gauss",
    "negloglikelihoodratio": "nllr_poisson",
    "neg_log_likelihood_ratio": "nllr_poisson",
    "gauss-approximation": "ga_cov",
    "gauss_approximation": "ga_cov",
    "gauss_approximation_covariance": "ga_cov",
    "gauss_approximation_covariance_fast": "ga_cov",
    "gauss_approximation_pointwise": "ga_pw",
    "gauss_approximation_pointwise_errors": "ga_pw",
}
XY_ONLY_MISSING = {"gauss_approximation_covariance_fast"}  # not in the xy table
NEEDS_ERRORS = {"chi2_cov", "chi2_pw", "nll_gauss", "nllr_gauss"}
POISSON = {"nll_poisson", "nllr_poisson", "ga_cov", "ga_pw"}
IS_CHI2 = {"chi2_cov", "chi2_pw", "chi2_noerr"}
HAS_LOGDET = {"chi2_cov", "chi2_pw", "ga_cov", "ga_pw"}


# ------------------------------------------------------------------ uncertainty sources
def source_cov(src, ref_values):
    """Covariance matrix (sigma sigma^T) o rho of one declared source at the given reference values."""
    n = len(ref_values)
    ref = np.asarray(ref_values, dtype=float)
    if src["kind"] == "simple":
        err = np.asarray(src["err"], dtype=float)
        if err.ndim == 0:
            err = np.ones(n) * err
        sigma = err * ref if src["relative"] else err
        rho = np.full((n, n), float(src.get("corr", 0.0)))
        np.fill_diagonal(rho, 1.0)
        return np.outer(sigma, sigma) * rho
    mat = np.asarray(src["matrix"], dtype=float)
    if src["matrix_type"] == "cov":
        return mat * np.outer(ref, ref) if src["relative"] else mat.copy()
    err = np.asarray(src["err_val"], dtype=float)
    if err.ndim == 0:
        err = np.ones(n) * err
    sigma = err * ref if src["relative"] else err
    return mat * np.outer(sigma, sigma)


# ------------------------------------------------------------------ constraints
def constraint_cost(con, p):
    p = np.asarray(p, dtype=float)
    if con["kind"] == "simple":
        unc = con["uncertainty"] * con["value"] if con.get("relative") else con["uncertainty"]
        return ((p[con["index"]] - con["value"]) / unc) ** 2
    vals = np.asarray(con["values"], dtype=float)
    return float((p[list(con["indices"])] - vals) @ np.linalg.solve(constraint_cov(con), p[list(con["indices"])] - vals))


def constraint_cov(con):
    vals = np.asarray(con["values"], dtype=float)
    mat = np.asarray(con["matrix"], dtype=float)
    if con["matrix_type"] == "cov":
        return mat * np.outer(vals, vals) if con.get("relative") else mat
    unc = np.asarray(con["uncertainties"], dtype=float)
    sig = unc * vals if con.get("relative") else unc
    return mat * np.outer(sig, sig)


def constraint_ndf(con):
    return 1 if con["kind"] == "simple" else len(con["indices"])


# ------------------------------------------------------------------ documented -2 ln L
def xlogy0(x, y):
    with np.errstate(divide="ignore", invalid="ignore"):
        return np.where(x == 0, 0.0, x * np.log(y))


def cost_formula(fid, d, m, V, with_logdet=True):
    """Documented cost without constraint terms. V: total covariance (may be None for error-free formulas)."""
    d = np.asarray(d, dtype=float)
    m = np.asarray(m, dtype=float)
    r = d - m
    if fid == "chi2_noerr":
        return float(r @ r)
    if fid == "chi2_cov":
        c = float(r @ np.linalg.solve(V, r))
        if with_logdet:
            c += float(np.linalg.slogdet(V)[1])
        return c
    if fid == "chi2_pw":
        s2 = np.diag(V)
        c = float(np.sum(r * r / s2))
        if with_logdet:
            c += float(np.sum(np.log(s2)))
        return c
    if fid == "nll_gauss":
        s2 = np.diag(V)
        return float(np.sum(r * r / s2 + np.log(TWO_PI * s2)))
    if fid == "nllr_gauss":
        s2 = np.diag(V)
        return float(np.sum(r * r / s2))
    if fid == "nll_poisson":
        return float(-2.0 * np.sum(xlogy0(d, m) - m - gammaln(d + 1.0)))
    if fid == "nllr_poisson":
        return float(-2.0 * np.sum(xlogy0(d, m) - m - (xlogy0(d, d) - d)))
    if fid == "ga_cov":
        Vt = (V if V is not None else np.zeros((len(d), len(d)))) + np.diag(m)
        c = float(r @ np.linalg.solve(Vt, r))
        if with_logdet:
            c += float(np.linalg.slogdet(Vt)[1])
        return c
    if fid == "ga_pw":
        s2 = (np.diag(V) if V is not None else 0.0) + m
        c = float(np.sum(r * r / s2))
        if with_logdet:
            c += float(np.sum(np.log(s2)))
        return c
    raise KeyError(fid)


def saturated_cost(fid, d, V):
    """Cost of the saturated model (model := data), determinant term zeroed — see goodness_of_fit docs."""
    return cost_formula(fid, d, d, V if fid not in ("ga_cov", "ga_pw") else V, with_logdet=False)


# ------------------------------------------------------------------ the reference fit
class RefFit:
    """Declared state of one fit. Types: xy, indexed, hist, unbinned."""

    def __init__(self, spec):
        self.type = spec["type"]
        self.model = Model.from_spec(spec["model"])
        self.cost = spec.get("cost")
        self.fid = COST_ALIASES[self.cost] if self.cost in COST_ALIASES else self.cost
        self.sources = []  # declaration order
        self.constraints = []
        self.p = np.array(self.model.defaults, dtype=float)
        self.fixed = {}
        self.limits = {}
        self.set_data(spec)

    # -- data
    def set_data(self, spec):
        if self.type == "xy":
            self.x = np.asarray(spec["x"], dtype=float)
            self.d = np.asarray(spec["y"], dtype=float)
        elif self.type == "indexed":
            self.x = np.asarray(spec["x"], dtype=float)  # support points baked into the model source
            self.d = np.asarray(spec["data"], dtype=float)
        elif self.type == "hist":
            self.edges = np.asarray(spec["edges"], dtype=float)
            self.entries = np.asarray(spec["entries"], dtype=float)
            self.d = hist_counts(self.edges, self.entries)
            self.n_entries = len(self.entries)
            self.hist_density = spec.get("density", True)
        elif self.type == "unbinned":
            self.d = np.asarray(spec["data"], dtype=float)
        self.n = len(self.d)

    # -- model
    def model_values(self, p=None):
        p = self.p if p is None else np.asarray(p, dtype=float)
        if self.type in ("xy", "indexed"):
            return self.model.f(self.x, p)
        if self.type == "hist":
            c = self.model.cdf(self.edges, p)
            integ = c[1:] - c[:-1]
            return integ * self.n_entries if self.hist_density else integ
        return self.model.f(self.d, p)  # unbinned: density at the data points

    slope_delta = None  # optional additive perturbation of the slope (used to bound finite-difference errors)

    def slope(self, p=None):
        p = self.p if p is None else np.asarray(p, dtype=float)
        g = self.model.dfdx(self.x, p)
        if self.slope_delta is not None:
            g = g + self.slope_delta
        return g

    def slope_fd_error_bound(self, p=None, rel_step=0.01):
        """Bound of |central difference - analytic slope| for step h_i = rel_step * sigma_x,i:
        h^2/6 * max|f3| on [x-h, x+h] (f3 = third derivative, sampled at 9 points, factor 2 safety)."""
        p = self.p if p is None else np.asarray(p, dtype=float)
        sx = np.sqrt(np.diag(self.axis_cov("x", p)))
        h = rel_step * sx
        m3 = np.zeros(self.n)
        for t in np.linspace(-1.0, 1.0, 9):
            m3 = np.maximum(m3, np.abs(self.model.d3fdx3(self.x + t * h, p)))
        return 2.0 * h**2 / 6.0 * m3

    # -- uncertainties
    def ref_values(self, src, p):
        if src["reference"] == "data":
            if self.type == "xy" and src.get("axis") == "x":
                return self.x
            return self.d
        if self.type == "xy" and src.get("axis") == "x":
            return self.x
        if self.type == "hist" and getattr(self, "hist_model_ref_unscaled", False) and self.hist_density:
            return self.model_values(p) / self.n_entries  # alternative semantics, used only to classify a known finding
        return self.model_values(p)

    def axis_cov(self, axis, p=None, which=("data", "model"), enabled_only=True):
        p = self.p if p is None else np.asarray(p, dtype=float)
        V = np.zeros((self.n, self.n))
        for s in self.sources:
            if enabled_only and not s["enabled"]:
                continue
            if s["reference"] not in which:
                continue
            if (s.get("axis") or "y") != axis:
                continue
            V = V + source_cov(s, self.ref_values(s, p))
        return V

    def total_cov(self, p=None):
        """y sources + x sources projected with the analytic slope"""
        p = self.p if p is None else np.asarray(p, dtype=float)
        V = self.axis_cov("y", p)
        if self.type == "xy":
            Vx = self.axis_cov("x", p)
            if np.any(Vx != 0):
                g = self.slope(p)
                V = V + Vx * np.outer(g, g)
        return V

    def has_enabled_source(self):
        return any(s["enabled"] for s in self.sources)

    def has_x_source(self):
        return any((s.get("axis") == "x") for s in self.sources)

    # -- cost
    def constraint_cost(self, p=None):
        p = self.p if p is None else np.asarray(p, dtype=float)
        return float(sum(constraint_cost(c, p) for c in self.constraints))

    def cost_value(self, p=None, fid=None, with_logdet=True, with_constraints=True):
        p = self.p if p is None else np.asarray(p, dtype=float)
        fid = fid or self.fid
        if self.type == "unbinned":
            f = self.model_values(p)
            c = float(-2.0 * np.sum(np.log(f)))
        else:
            V = self.total_cov(p) if (fid in NEEDS_ERRORS or fid in ("ga_cov", "ga_pw")) else None
            c = cost_formula(fid, self.d, self.model_values(p), V, with_logdet=with_logdet)
        if with_constraints:
            c += self.constraint_cost(p)
        return c

    def gof(self, p=None, fid=None):
        """cost minus cost of the saturated model, determinant term excluded (documented)."""
        p = self.p if p is None else np.asarray(p, dtype=float)
        fid = fid or self.fid
        if self.type == "unbinned":
            return None
        V = self.total_cov(p) if (fid in NEEDS_ERRORS or fid in ("ga_cov", "ga_pw")) else None
        c = cost_formula(fid, self.d, self.model_values(p), V, with_logdet=False) + self.constraint_cost(p)
        if fid in ("chi2_noerr", "chi2_cov", "chi2_pw", "nllr_gauss", "ga_cov", "ga_pw"):
            sat = 0.0  # pure quadratic forms of the residuals: zero for model == data (also where V~ = V + diag(d) is singular)
        else:
            sat = cost_formula(fid, self.d, self.d, V, with_logdet=False)
        return c - sat

    def logdet(self, p=None):
        return float(np.linalg.slogdet(self.total_cov(p))[1])

    def ndf(self, n_par=None):
        n_par = len(self.p) if n_par is None else n_par
        return self.n + sum(constraint_ndf(c) for c in self.constraints) - n_par + len(self.fixed)


def hist_counts(edges, entries):
    """[lower, upper) bins by an independent right-most-edge search."""
    edges = np.asarray(edges, dtype=float)
    out = np.zeros(len(edges) - 1)
    for e in np.asarray(entries, dtype=float):
        if e < edges[0] or e >= edges[-1]:
            continue
        # right-most edge <= e
        k = int(np.searchsorted(edges, e, side="right")) - 1
        out[k] += 1
    return out


def pd_info(V):
    """(is positive definite, condition number)"""
    if V is None or not np.all(np.isfinite(V)):
        return False, np.inf
    w = np.linalg.eigvalsh((V + V.T) / 2.0)
    if w[0] <= 0:
        return False, np.inf
    return True, float(w[-1] / w[0])
