"""Reach monitors: sys.monitoring PY_START counters on the code objects of the anchored mechanisms.

Working on code objects makes the counters immune to early binding (`from m import f`, property
objects copied by `@Base.prop.setter`): whichever reference is called, the same code object runs.
A run whose deciding mechanism was never entered is reported INCONCLUSIVE, never HELD.
"""
import importlib
import sys
import types

TOOL_ID = 3
_counts = {}
_code_to_name = {}
_installed = False


def _resolve(modname, qualname):
    """Return list of code objects for `module:Class.attr` (property -> fget and fset)."""
    mod = importlib.import_module(modname)
    obj = mod
    parts = qualname.split(".")
    for i, p in enumerate(parts):
        if p in ("fget", "fset"):
            obj = getattr(obj, p)
            continue
        if isinstance(obj, type):
            # look in the class __dict__ chain so that properties / staticmethods are not bound
            for klass in obj.__mro__:
                if p in klass.__dict__:
                    obj = klass.__dict__[p]
                    break
            else:
                raise AttributeError("%s has no %s" % (obj, p))
        else:
            obj = getattr(obj, p)
    codes = []
    if isinstance(obj, property):
        for f in (obj.fget, obj.fset):
            if f is not None:
                codes.append(f.__code__)
    elif isinstance(obj, (staticmethod, classmethod)):
        codes.append(obj.__func__.__code__)
    elif isinstance(obj, types.FunctionType):
        codes.append(obj.__code__)
    elif hasattr(obj, "__wrapped__") and hasattr(obj.__wrapped__, "__code__"):
        codes.append(obj.__wrapped__.__code__)
    elif hasattr(obj, "__code__"):
        codes.append(obj.__code__)
    else:
        raise TypeError("cannot find code object of %s.%s (%r)" % (modname, qualname, obj))
    return codes


def _on_start(code, offset):
    n = _code_to_name.get(code)
    if n is not None:
        _counts[n] += 1
    return None


def install(anchors):
    """anchors: list of (module, qualname). Returns list of anchor names that could not be resolved."""
    global _installed
    mon = sys.monitoring
    missing = []
    if not _installed:
        try:
            mon.use_tool_id(TOOL_ID, "verif-reach")
        except ValueError:
            pass
        mon.register_callback(TOOL_ID, mon.events.PY_START, _on_start)
        _installed = True
    for modname, qualname in anchors:
        name = "%s:%s" % (modname, qualname)
        try:
            codes = _resolve(modname, qualname)
        except Exception:
            missing.append(name)
            continue
        _counts.setdefault(name, 0)
        for c in codes:
            _code_to_name[c] = name
            mon.set_local_events(TOOL_ID, c, mon.events.PY_START)
    return missing


def counts():
    return dict(_counts)
