"""Core of the runtime-monitoring harness: shard context (recorder, comparison bookkeeping,
coverage counters, witness capture), three-valued verdict, evidence writer.

A check module (checks/cNN.py) defines

    PROPERTY = "C04"
    ANCHORS  = [("kafe2.core.fitters.nexus", "Function.update"), ...]   # reach monitors
    RULE     = "..."                                                    # non-triviality rule (text)
    def run_shard(ctx): ...             # generate cases, drive the real code, call ctx.* oracles
    def replay(ctx, case): ...          # re-execute exactly one recorded case
    def floors(tier): return {...}      # coverage floors (see verdict())

The deciding step is always an oracle called through ctx.check()/ctx.eq()/ctx.close(): each call is
counted per observable, a failing one is recorded as a witness with the case that produced it.
"""
import hashlib
import json
import math
import os
import sys
import time
import traceback
import warnings

import numpy as np

VERIF = os.path.dirname(os.path.dirname(os.path.abspath(__file__)))


# ------------------------------------------------------------------ json helpers
def jsonable(o, _depth=0):
    """Convert numpy / tuples / exotic objects to plain JSON-able data (lossy only for objects)."""
    if _depth > 12:
        return repr(o)[:200]
    if o is None or isinstance(o, (bool, str)):
        return o
    if isinstance(o, (int, np.integer)):
        return int(o)
    if isinstance(o, (float, np.floating)):
        f = float(o)
        if math.isnan(f):
            return "nan"
        if math.isinf(f):
            return "inf" if f > 0 else "-inf"
        return f
    if isinstance(o, complex):
        return repr(o)
    if isinstance(o, np.ndarray):
        return jsonable(o.tolist(), _depth + 1)
    if isinstance(o, dict):
        return {str(k): jsonable(v, _depth + 1) for k, v in o.items()}
    if isinstance(o, (list, tuple, set, frozenset)):
        return [jsonable(v, _depth + 1) for v in o]
    if isinstance(o, BaseException):
        return "%s: %s" % (type(o).__name__, str(o)[:300])
    return repr(o)[:300]


def _round_floats(o):
    if isinstance(o, float):
        return float("%.12g" % o)
    if isinstance(o, dict):
        return {k: _round_floats(v) for k, v in o.items()}
    if isinstance(o, list):
        return [_round_floats(v) for v in o]
    return o


def case_hash(case):
    s = json.dumps(_round_floats(jsonable(case)), sort_keys=True, separators=(",", ":"))
    return hashlib.sha1(s.encode()).hexdigest()[:16]


# ------------------------------------------------------------------ tolerances
class Tol:
    """Tolerance classes of DESIGN.md §1 (echoed into the evidence)."""

    EXACT = ("EXACT", 0.0, 0.0)
    ULP = ("ULP", 1e-13, 1e-300)  # same arithmetic, other summation order
    LINALG = ("LINALG", 1e-9, 1e-12)  # same mathematics, different stable algorithm

    @staticmethod
    def custom(name, rtol, atol):
        return (name, rtol, atol)


def maxdiff(a, b):
    a = np.asarray(a, dtype=float)
    b = np.asarray(b, dtype=float)
    if a.shape != b.shape:
        return float("inf")
    if a.size == 0:
        return 0.0
    with np.errstate(invalid="ignore"):
        d = np.abs(a - b)
    # equal infinities / both nan count as equal
    same = (a == b) | (np.isnan(a) & np.isnan(b))
    d = np.where(same, 0.0, d)
    d = np.where(np.isnan(d), np.inf, d)
    return float(np.max(d))


def allclose(a, b, rtol, atol, scale=None):
    a = np.asarray(a, dtype=float)
    b = np.asarray(b, dtype=float)
    if a.shape != b.shape:
        return False
    if a.size == 0:
        return True
    if scale is None:
        scale = np.maximum(np.abs(a), np.abs(b))
    with np.errstate(invalid="ignore"):
        d = np.abs(a - b)
    same = (a == b) | (np.isnan(a) & np.isnan(b))
    ok = same | (d <= rtol * scale + atol)
    return bool(np.all(ok))


# ------------------------------------------------------------------ shard context
class Inconclusive(Exception):
    pass


class OpTimeout(BaseException):
    """Raised by time_limit(); BaseException so that `except Exception` in the code under test cannot eat it."""


class time_limit:
    """Wall-clock guard around one operation on the code under test (SIGALRM, main thread only).
    A firing guard means the operation did not terminate in any reasonable time (e.g. a cyclic graph):
    the caller decides what that means for the property."""

    def __init__(self, seconds):
        self.seconds = seconds

    def _fire(self, signum, frame):
        raise OpTimeout("operation exceeded %.1f s" % self.seconds)

    def __enter__(self):
        import signal

        self._old = signal.signal(signal.SIGALRM, self._fire)
        signal.setitimer(signal.ITIMER_REAL, self.seconds)
        return self

    def __exit__(self, *exc):
        import signal

        signal.setitimer(signal.ITIMER_REAL, 0)
        signal.signal(signal.SIGALRM, self._old)
        return False


class Ctx:
    """Per-shard recorder. Everything that ends up in the evidence is counted here."""

    MAX_WITNESSES_PER_KEY = 3
    MAX_SAMPLES = 4

    def __init__(self, prop, tier, seed, shard=0, nshards=1, budget_s=60.0, max_cases=None):
        self.prop = prop
        self.tier = tier
        self.seed = int(seed)
        self.shard = shard
        self.nshards = nshards
        self.budget_s = float(budget_s)
        self.max_cases = max_cases
        self.t0 = time.monotonic()
        ss = np.random.SeedSequence([self.seed, shard, int(hashlib.sha1(prop.encode()).hexdigest()[:6], 16)])
        self.rng = np.random.default_rng(ss)
        self.evaluations = 0
        self.hashes_nontrivial = set()
        self.hashes_all = set()
        self.samples = []
        self.comparisons = {}
        self.ops = {}
        self.strata = set()
        self.discarded = {}
        self.notes = {}
        self.sets = {}
        self.witnesses = []
        self._wit_per_key = {}
        self.worst = {}
        self.cur_case = None
        self.cur_nontrivial = False
        self.errors = []

    # -- budget
    def time_left(self):
        return self.budget_s - (time.monotonic() - self.t0)

    def more(self):
        if self.max_cases is not None and self.evaluations >= self.max_cases:
            return False
        return self.time_left() > 0

    def reseed_legacy(self):
        """kafe2 draws random error names from numpy's legacy global RNG."""
        np.random.seed(int(self.rng.integers(0, 2**31 - 1)))

    # -- case bookkeeping
    def begin_case(self, case):
        self.cur_case = case
        self.cur_nontrivial = False
        self.evaluations += 1

    def nontrivial(self, flag=True):
        if flag:
            self.cur_nontrivial = True

    def end_case(self, nontrivial=None, sample=True):
        if nontrivial is not None:
            self.cur_nontrivial = bool(nontrivial)
        h = case_hash(self.cur_case)
        self.hashes_all.add(h)
        if self.cur_nontrivial:
            if h not in self.hashes_nontrivial and sample and len(self.samples) < self.MAX_SAMPLES:
                self.samples.append(jsonable(self.cur_case))
            self.hashes_nontrivial.add(h)
        self.cur_case = None

    def op(self, name, n=1):
        self.ops[name] = self.ops.get(name, 0) + n

    def stratum(self, *key):
        self.strata.add("|".join(str(k) for k in key))

    def discard(self, reason):
        self.discarded[reason] = self.discarded.get(reason, 0) + 1

    def note(self, key, n=1):
        self.notes[key] = self.notes.get(key, 0) + n

    def add_to_set(self, name, item):
        self.sets.setdefault(name, set()).add(str(item))

    # -- oracles
    def _count(self, observable):
        self.comparisons[observable] = self.comparisons.get(observable, 0) + 1

    def violation(self, key, observable, detail, case=None, extra=None):
        """Record a witness. `key` is the mechanism key the classifier assigned (or None)."""
        k = key or "unclassified"
        n = self._wit_per_key.get((k, observable), 0)
        self._wit_per_key[(k, observable)] = n + 1
        if n >= self.MAX_WITNESSES_PER_KEY:
            return
        w = {
            "property": self.prop,
            "key": key,
            "observable": observable,
            "detail": jsonable(detail),
            "case": jsonable(case if case is not None else self.cur_case),
            "seed": self.seed,
            "shard": self.shard,
            "tier": self.tier,
        }
        if extra:
            w.update(jsonable(extra))
        self.witnesses.append(w)

    def check(self, observable, ok, detail=None, key=None, case=None):
        """Generic oracle: counts the comparison; on failure records a witness."""
        self._count(observable)
        if not ok:
            if callable(key):
                key = key()
            if callable(detail):
                detail = detail()
            self.violation(key, observable, detail, case)
        return bool(ok)

    def eq(self, observable, got, expected, key=None, detail=None):
        try:
            if isinstance(got, np.ndarray) or isinstance(expected, np.ndarray):
                ok = np.shape(got) == np.shape(expected) and bool(np.array_equal(np.asarray(got), np.asarray(expected), equal_nan=True))
            else:
                ok = got == expected
                if isinstance(ok, np.ndarray):
                    ok = bool(ok.all())
                if not ok and isinstance(got, float) and isinstance(expected, float) and math.isnan(got) and math.isnan(expected):
                    ok = True
        except Exception:
            ok = False
        d = {"got": got, "expected": expected, "tolerance": "EXACT"}
        if detail:
            d.update(detail)
        return self.check(observable, bool(ok), d, key)

    def close(self, observable, got, expected, tol=Tol.LINALG, scale=None, key=None, detail=None):
        name, rtol, atol = tol
        try:
            ok = allclose(got, expected, rtol, atol, scale)
            md = maxdiff(got, expected)
        except Exception as e:  # shape / type problems are violations of the comparison
            ok = False
            md = repr(e)
        if ok and isinstance(md, float):
            w = self.worst.get(observable, 0.0)
            if md > w:
                self.worst[observable] = md
        d = {"got": got, "expected": expected, "tolerance": name, "rtol": rtol, "atol": atol, "maxdiff": md}
        if detail:
            d.update(detail)
        return self.check(observable, ok, d, key)

    # -- result
    def result(self):
        return {
            "prop": self.prop,
            "tier": self.tier,
            "seed": self.seed,
            "shard": self.shard,
            "evaluations": self.evaluations,
            "hashes_nontrivial": sorted(self.hashes_nontrivial),
            "n_distinct_all": len(self.hashes_all),
            "samples": self.samples,
            "comparisons": self.comparisons,
            "ops": self.ops,
            "strata": sorted(self.strata),
            "discarded": self.discarded,
            "notes": self.notes,
            "sets": {k: sorted(v) for k, v in self.sets.items()},
            "witnesses": self.witnesses,
            "witness_counts": {"%s|%s" % k: v for k, v in self._wit_per_key.items()},
            "worst": self.worst,
            "errors": self.errors,
            "wall_s": time.monotonic() - self.t0,
        }


# ------------------------------------------------------------------ merging / verdict
def merge(results):
    m = {
        "evaluations": 0,
        "hashes_nontrivial": set(),
        "n_distinct_all": 0,
        "samples": [],
        "comparisons": {},
        "ops": {},
        "strata": set(),
        "discarded": {},
        "notes": {},
        "sets": {},
        "witnesses": [],
        "witness_counts": {},
        "worst": {},
        "errors": [],
        "reach": {},
        "shard_wall_s": [],
    }
    for r in results:
        m["evaluations"] += r["evaluations"]
        m["hashes_nontrivial"].update(r["hashes_nontrivial"])
        m["n_distinct_all"] += r["n_distinct_all"]
        for s in r["samples"]:
            if len(m["samples"]) < 5:
                m["samples"].append(s)
        for f in ("comparisons", "ops", "discarded", "notes", "witness_counts"):
            for k, v in r[f].items():
                m[f][k] = m[f].get(k, 0) + v
        for k, v in r.get("reach", {}).items():
            m["reach"][k] = m["reach"].get(k, 0) + v
        m["strata"].update(r["strata"])
        for k, v in r["sets"].items():
            m["sets"].setdefault(k, set()).update(v)
        m["witnesses"].extend(r["witnesses"])
        for k, v in r["worst"].items():
            m["worst"][k] = max(m["worst"].get(k, 0.0), v)
        m["errors"].extend(r["errors"])
        m["shard_wall_s"].append(round(r["wall_s"], 2))
    return m


def floor_failures(m, floors):
    """Return list of reasons why the run is inconclusive (coverage floors not met)."""
    why = []
    for obs, n in floors.get("comparisons", {}).items():
        if m["comparisons"].get(obs, 0) < n:
            why.append("observable %s compared %d < %d times" % (obs, m["comparisons"].get(obs, 0), n))
    for op in floors.get("ops", []):
        if m["ops"].get(op, 0) < 1:
            why.append("op kind %s never executed" % op)
    for a in floors.get("reach", []):
        if m["reach"].get(a, 0) < 1:
            why.append("anchor %s never entered" % a)
    for s in floors.get("strata", []):
        if s not in m["strata"]:
            why.append("stratum %s never generated" % s)
    for name, n in floors.get("sets", {}).items():
        if len(m["sets"].get(name, ())) < n:
            why.append("set %s has %d < %d distinct members" % (name, len(m["sets"].get(name, ())), n))
    if len(m["hashes_nontrivial"]) < floors.get("distinct_nontrivial", 2):
        why.append("distinct_nontrivial %d < %d" % (len(m["hashes_nontrivial"]), floors.get("distinct_nontrivial", 2)))
    return why


def quiet_warnings():
    warnings.simplefilter("ignore")
    np.seterr(all="ignore")
    import logging

    logging.disable(logging.CRITICAL)


def fmt_exc():
    return traceback.format_exc(limit=8)


def numerical_failure(exc):
    """True if the exception currently being handled is a numerical failure inside third-party numerics (numpy / scipy /
    numdifftools / iminuit: nan or inf cost far from the optimum, singular numerical Hessian) or kafe2's nan-symmetry assertion
    on the numerical Hessian.  Such an operation has no answer; monitors count it as discarded instead of judging it."""
    import sys

    import numpy as np

    tb = sys.exc_info()[2]
    if tb is None:
        return False
    while tb.tb_next:
        tb = tb.tb_next
    inner = tb.tb_frame.f_code
    third_party = "site-packages" in inner.co_filename
    if isinstance(exc, np.linalg.LinAlgError):
        return True
    if isinstance(exc, AssertionError) and inner.co_name in ("hessian", "hessian_inv"):
        return True
    return third_party and isinstance(exc, (IndexError, RuntimeError, FloatingPointError, ZeroDivisionError, OverflowError, ValueError, AssertionError))


class InjectedFault(ArithmeticError):
    """raised by FaultyHandle: stands for a model / cost function that raises during an excursion"""


class FaultyHandle:
    """wraps the cost function handle of a minimiser (`minimizer._func_handle`); raises InjectedFault once, at its k-th counted call.
    With p0 given, calls at exactly p0 (the optimum: write-backs that end an excursion) are passed through uncounted."""

    def __init__(self, f, k, p0=None):
        import numpy as np

        self.f, self.k, self.n = f, k, 0
        self.p0 = None if p0 is None else np.array(p0, dtype=float)

    def __call__(self, *a):
        import numpy as np

        if self.p0 is not None and len(a) == len(self.p0) and np.array_equal(np.array(a, dtype=float), self.p0):
            return self.f(*a)
        self.n += 1
        if self.n == self.k:
            raise InjectedFault("injected at cost evaluation %d" % self.k)
        return self.f(*a)
