"""Registry of model families with analytic value / d/dx / d/dp / antiderivative.

The reference side is derived with SymPy from one expression string per family (so f, df/dx, df/dp and
the CDF are mutually consistent by construction and independent of kafe2's numerical derivatives).
The kafe2 side gets a plain Python function materialised by `exec` of generated `def` source text
(kafe2 inspects signatures; `to_file` calls inspect.getsource, so the text is registered in linecache).
"""
import linecache
import math

import numpy as np
import sympy as sp

_x = sp.Symbol("x")

# family -> (parameter names, sympy expression, numpy source expression, default values, is_linear_in_parameters)
FAMILIES = {
    "poly0": (["c0"], "c0 + 0*x", "c0 + 0.0 * x", [1.0], True),
    "poly1": (["c0", "c1"], "c0 + c1*x", "c0 + c1 * x", [1.0, 0.5], True),
    "poly2": (["c0", "c1", "c2"], "c0 + c1*x + c2*x**2", "c0 + c1 * x + c2 * x**2", [1.0, 0.5, 0.2], True),
    "poly3": (["c0", "c1", "c2", "c3"], "c0 + c1*x + c2*x**2 + c3*x**3", "c0 + c1 * x + c2 * x**2 + c3 * x**3", [1.0, 0.5, 0.2, 0.1], True),
    "poly4": (
        ["c0", "c1", "c2", "c3", "c4"],
        "c0 + c1*x + c2*x**2 + c3*x**3 + c4*x**4",
        "c0 + c1 * x + c2 * x**2 + c3 * x**3 + c4 * x**4",
        [1.0, 0.5, 0.2, 0.1, 0.05],
        True,
    ),
    "trig": (["a", "b", "c"], "a*sin(x) + b*cos(x) + c", "a * np.sin(x) + b * np.cos(x) + c", [1.0, 0.5, 0.3], True),
    "expbasis": (["a", "b"], "a*exp(-x/3) + b", "a * np.exp(-x / 3.0) + b", [2.0, 0.5], True),
    "exponential": (["A", "k"], "A*exp(k*x)", "A * np.exp(k * x)", [2.0, -0.4], False),
    "powerlaw": (["A", "n"], "A*x**n", "A * x**n", [1.5, 1.3], False),
    "gausspeak": (["A", "mu", "s", "c"], "A*exp(-((x-mu)/s)**2/2) + c", "A * np.exp(-0.5 * ((x - mu) / s) ** 2) + c", [5.0, 3.0, 1.2, 1.0], False),
    "lorentz": (["A", "x0", "g", "c"], "A/(1+((x-x0)/g)**2) + c", "A / (1.0 + ((x - x0) / g) ** 2) + c", [5.0, 3.0, 1.0, 1.0], False),
    "sinusoid": (["A", "w", "phi", "c"], "A*sin(w*x+phi) + c", "A * np.sin(w * x + phi) + c", [2.0, 1.1, 0.3, 3.0], False),
    "logistic": (["L", "k", "x0"], "L/(1+exp(-k*(x-x0)))", "L / (1.0 + np.exp(-k * (x - x0)))", [6.0, 1.2, 3.0], False),
}

# densities: (parameter names, sympy pdf, numpy source, defaults, sympy cdf or None)
DENSITIES = {
    "normal": (["mu", "sigma"], "exp(-((x-mu)/sigma)**2/2)/sqrt(2*pi*sigma**2)", "np.exp(-0.5 * ((x - mu) / sigma) ** 2) / np.sqrt(2.0 * np.pi * sigma**2)", [0.3, 1.2], "(1+erf((x-mu)/(sigma*sqrt(2))))/2", "0.5 * (1.0 + erf((x - mu) / (sigma * np.sqrt(2.0))))"),
    "expdens": (["tau"], "exp(-x/tau)/tau", "np.exp(-x / tau) / tau", [1.5], "1-exp(-x/tau)", "1.0 - np.exp(-x / tau)"),
    "mixture": (
        ["f", "mu1", "s1", "mu2", "s2"],
        "f*exp(-((x-mu1)/s1)**2/2)/sqrt(2*pi*s1**2) + (1-f)*exp(-((x-mu2)/s2)**2/2)/sqrt(2*pi*s2**2)",
        "f * np.exp(-0.5 * ((x - mu1) / s1) ** 2) / np.sqrt(2.0 * np.pi * s1**2) + (1.0 - f) * np.exp(-0.5 * ((x - mu2) / s2) ** 2) / np.sqrt(2.0 * np.pi * s2**2)",
        [0.4, -1.0, 0.7, 1.5, 1.1],
        "f*(1+erf((x-mu1)/(s1*sqrt(2))))/2 + (1-f)*(1+erf((x-mu2)/(s2*sqrt(2))))/2",
        "f * 0.5 * (1.0 + erf((x - mu1) / (s1 * np.sqrt(2.0)))) + (1.0 - f) * 0.5 * (1.0 + erf((x - mu2) / (s2 * np.sqrt(2.0))))",
    ),
}

# parameters that carry the unit of y (scale with the data); the others are unit-free
UNIT_PARAMS = {
    "poly0": ["c0"], "poly1": ["c0", "c1"], "poly2": ["c0", "c1", "c2"], "poly3": ["c0", "c1", "c2", "c3"], "poly4": ["c0", "c1", "c2", "c3", "c4"],
    "trig": ["a", "b", "c"], "expbasis": ["a", "b"], "exponential": ["A"], "powerlaw": ["A"], "gausspeak": ["A", "c"], "lorentz": ["A", "c"],
    "sinusoid": ["A", "c"], "logistic": ["L"],
}

_counter = [0]


class Model:
    def __init__(self, family, order=None, name=None, defaults=None, density=False):
        table = DENSITIES if density else FAMILIES
        spec = table[family]
        self.family = family
        self.density = density
        self.base_pnames = list(spec[0])
        self.order = list(order) if order is not None else list(range(len(self.base_pnames)))
        self.pnames = [self.base_pnames[i] for i in self.order]  # signature order
        base_defaults = list(spec[3]) if defaults is None else list(defaults)
        self.defaults = [float(base_defaults[i]) for i in self.order] if defaults is None else [float(d) for d in defaults]
        self.linear = (not density) and spec[4]
        self.np_expr = spec[2]
        self.np_cdf_expr = spec[5] if density else None
        self.name = name or "%s_model" % family
        syms = [sp.Symbol(n) for n in self.pnames]
        expr = sp.sympify(spec[1], locals={n: s for n, s in zip(self.pnames, syms)} | {"x": _x})
        self._f = sp.lambdify([_x] + syms, expr, "numpy")
        self._dfdx = sp.lambdify([_x] + syms, sp.diff(expr, _x), "numpy")
        self._d2fdx2 = sp.lambdify([_x] + syms, sp.diff(expr, _x, 2), "numpy")
        self._d3fdx3 = sp.lambdify([_x] + syms, sp.diff(expr, _x, 3), "numpy")
        self._dfdp = [sp.lambdify([_x] + syms, sp.diff(expr, s), "numpy") for s in syms]
        self._cdf = None
        if density and spec[4]:
            cexpr = sp.sympify(spec[4], locals={n: s for n, s in zip(self.pnames, syms)} | {"x": _x})
            self._cdf = sp.lambdify([_x] + syms, cexpr, ["scipy", "numpy"])

    # ---- reference side
    def f(self, x, p):
        x = np.asarray(x, dtype=float)
        return np.asarray(self._f(x, *p), dtype=float) + np.zeros_like(x)

    def dfdx(self, x, p):
        x = np.asarray(x, dtype=float)
        return np.asarray(self._dfdx(x, *p), dtype=float) + np.zeros_like(x)

    def d3fdx3(self, x, p):
        x = np.asarray(x, dtype=float)
        return np.asarray(self._d3fdx3(x, *p), dtype=float) + np.zeros_like(x)

    def dfdp(self, x, p):
        x = np.asarray(x, dtype=float)
        return np.array([np.asarray(g(x, *p), dtype=float) + np.zeros_like(x) for g in self._dfdp])

    def cdf(self, x, p):
        x = np.asarray(x, dtype=float)
        return np.asarray(self._cdf(x, *p), dtype=float) + np.zeros_like(x)

    # ---- kafe2 side
    def source(self, with_defaults=True, name=None, indexed_x=None, cdf=False):
        name = name or self.name
        if with_defaults:
            args = ", ".join("%s=%r" % (n, d) for n, d in zip(self.pnames, self.defaults))
        else:
            args = ", ".join(self.pnames)
        expr = self.np_cdf_expr if cdf else self.np_expr
        if indexed_x is not None:
            return "def %s(%s):\n    x = np.array(%r)\n    return %s\n" % (name, args, [float(v) for v in indexed_x], expr)
        return "def %s(x, %s):\n    return %s\n" % (name, args, expr)

    def callable(self, with_defaults=True, name=None, indexed_x=None, cdf=False):
        src = self.source(with_defaults, name, indexed_x, cdf)
        _counter[0] += 1
        fname = "<verif-model-%d>" % _counter[0]
        linecache.cache[fname] = (len(src), None, src.splitlines(True), fname)
        from scipy.special import erf

        ns = {"np": np, "erf": erf}
        exec(compile(src, fname, "exec"), ns)
        return ns[name or self.name]

    def spec(self):
        return {"family": self.family, "order": self.order, "name": self.name, "defaults": self.defaults, "density": self.density}

    @staticmethod
    def from_spec(s):
        return Model(s["family"], order=s.get("order"), name=s.get("name"), defaults=s.get("defaults"), density=s.get("density", False))


def self_test():
    """numpy source text and sympy reference must agree (guards the harness itself)."""
    rng = np.random.default_rng(1)
    x = rng.uniform(0.5, 5.0, size=7)
    for table, dens in ((FAMILIES, False), (DENSITIES, True)):
        for fam in table:
            m = Model(fam, density=dens)
            g = m.callable()
            a = g(x, *m.defaults)
            b = m.f(x, m.defaults)
            assert np.allclose(a, b, rtol=1e-12, atol=1e-14), fam
            if dens and m._cdf is not None:
                assert np.allclose(m.callable(cdf=True, name="F")(x, *m.defaults), m.cdf(x, m.defaults), rtol=1e-13, atol=1e-15), fam
                h = 1e-6
                num = (m.cdf(x + h, m.defaults) - m.cdf(x - h, m.defaults)) / (2 * h)
                assert np.allclose(num, b, rtol=1e-6), fam
    return True
