"""Child process of ./check: runs one shard (or one replay) of one property's monitor."""
import argparse
import faulthandler
import importlib
import json
import os
import sys

VERIF = os.path.dirname(os.path.dirname(os.path.abspath(__file__)))


def _setup_path():
    src = os.environ.get("KAFE2_SRC")
    if src:
        sys.path.insert(0, src)
    deps = os.path.join(VERIF, ".deps")
    if os.path.isdir(deps):
        sys.path.append(deps)
    if VERIF not in sys.path:
        sys.path.insert(0, VERIF)


def main():
    ap = argparse.ArgumentParser()
    ap.add_argument("prop")
    ap.add_argument("--tier", default="quick")
    ap.add_argument("--seed", type=int, default=0)
    ap.add_argument("--shard", type=int, default=0)
    ap.add_argument("--nshards", type=int, default=1)
    ap.add_argument("--budget", type=float, default=60.0)
    ap.add_argument("--max-cases", type=int, default=None)
    ap.add_argument("--out", required=True)
    ap.add_argument("--replay", default=None)
    a = ap.parse_args()

    faulthandler.enable()
    _setup_path()
    os.environ.setdefault("MPLBACKEND", "Agg")
    from vlib import monitor, reach

    monitor.quiet_warnings()
    mod = importlib.import_module("checks.%s" % a.prop.lower())
    ctx = monitor.Ctx(a.prop, a.tier, a.seed, a.shard, a.nshards, a.budget, a.max_cases)
    missing = reach.install(getattr(mod, "ANCHORS", []))
    import kafe2

    ctx.notes["kafe2_path"] = 0
    try:
        if a.replay:
            with open(a.replay) as f:
                w = json.load(f)
            mod.replay(ctx, w["case"] if "case" in w else w)
        else:
            mod.run_shard(ctx)
    except monitor.Inconclusive as e:
        ctx.errors.append("inconclusive: %s" % e)
    except Exception:
        ctx.errors.append("harness error in shard %d: %s" % (a.shard, monitor.fmt_exc()))
    res = ctx.result()
    res["reach"] = reach.counts()
    res["reach_missing"] = missing
    res["kafe2_file"] = os.path.dirname(kafe2.__file__)
    with open(a.out, "w") as f:
        json.dump(res, f)


if __name__ == "__main__":
    main()
