"""A fit under test together with its reference state: built from (spec, setup ops)."""
import numpy as np

from . import dsl, gen
from .ref import IS_CHI2, NEEDS_ERRORS, POISSON, pd_info


def norm_op(spec, op):
    """op as seen by the reference (axis spelling normalised)"""
    if op[0] in ("add_error", "add_matrix_error") and spec["type"] == "xy":
        return [op[0], dict(op[1], axis=gen.norm_axis(op[1]["axis"]))]
    return op


class Member:
    def __init__(self, spec, setup=(), minimizer=None, dea=None):
        self.spec = dict(spec)
        if minimizer is not None:
            self.spec["minimizer"] = minimizer
        if dea is not None:
            self.spec["dea"] = dea
        self.fit = dsl.build_fit(self.spec)
        self.ref = dsl.new_ref(self.spec)
        for op in setup:
            self.apply(op)

    def apply(self, op):
        if op[0] == "set_all_parameter_values" and len(op) > 2 and op[2] == "same-array":
            # a scan loop that re-uses one mutable array: the same object, changed in place, is handed over every time
            if getattr(self, "_scan_array", None) is None or len(self._scan_array) != len(op[1]):
                self._scan_array = np.zeros(len(op[1]), dtype=float)
            self._scan_array[:] = op[1]
            r = self.fit.set_all_parameter_values(self._scan_array)
            dsl.apply_ref(self.ref, self.spec, [op[0], list(op[1])])
            return r
        r = dsl.apply_live(self.fit, self.spec, op)
        dsl.apply_ref(self.ref, self.spec, norm_op(self.spec, op))
        return r

    @property
    def fid(self):
        spec = self.spec
        if spec["type"] == "unbinned":
            return "unbinned"
        if spec["cost"] == "chi2" and not self.ref.sources:
            return "chi2_noerr"
        return self.ref.fid

    def admissible(self, p=None):
        r = self.ref
        mv = r.model_values(p)
        if not np.all(np.isfinite(mv)):
            return False
        fid = self.fid
        if fid in NEEDS_ERRORS or fid in ("ga_cov", "ga_pw"):
            V = r.total_cov(p) + (np.diag(mv) if fid in ("ga_cov", "ga_pw") else 0.0)
            ok, cond = pd_info(V)
            if not ok or cond > 1e8:
                return False
        if (fid in POISSON or fid == "unbinned") and np.any(mv <= 0):
            return False
        return True

    def cost(self, p=None, with_logdet=True):
        return self.ref.cost_value(p, fid=self.fid if self.fid != "unbinned" else None, with_logdet=with_logdet)

    def exp_gof(self):
        if self.fid == "unbinned":
            return None
        return self.ref.gof(fid=self.fid)

    def is_chi2(self):
        return self.fid in IS_CHI2

    def sync_from_fit(self):
        self.ref.p = np.array([float(v) for v in self.fit.parameter_values], dtype=float)
        for n in list(self.ref.fixed):
            self.ref.fixed[n] = self.ref.p[self.ref.model.pnames.index(n)]
