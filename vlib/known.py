"""known_findings.json: genuine defects that were recorded instead of (or after) being repaired.

Entries are keyed by *mechanism* (`key`), never by seed / case hash / random values.  Only entries
with status "open" suppress: a witness whose classifier key equals an open entry of the same
property is printed as KNOWN-FINDING and does not fail the check.  "fixed" entries suppress nothing.
The file is never written at run time.
"""
import json
import os

from .monitor import VERIF

PATH = os.path.join(VERIF, "known_findings.json")


def load():
    if not os.path.exists(PATH):
        return []
    with open(PATH) as f:
        return json.load(f)["findings"]


def open_keys(prop):
    out = {}
    for e in load():
        props = e.get("properties") or [e["property"]]
        if prop in props and e.get("status") == "open":
            out[e["key"]] = e
    return out
