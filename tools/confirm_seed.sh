#!/bin/bash
# usage: tools/confirm_seed.sh <seeded-id>  — confirms in a scratch copy: patch applies, suite result unchanged (841 pass + known failure),
# demo fails with the change and passes without, the property's check catches it. Records everything in meta.json.
set -u
ID=$1; D=/verif/seeded/$ID
S=$(mktemp -d /tmp/kafe2-confirm-XXXXXX)
git -C /repo worktree add -q --detach $S/wt HEAD
(cd $S/wt && git apply $D/patch.diff) || { echo "$ID: patch does not apply"; git -C /repo worktree remove --force $S/wt; rm -rf $S; exit 3; }
suite=$(cd $S/wt && PYTHONPATH=$S/wt MPLBACKEND=Agg /venv/bin/python -m pytest -q -p no:cacheprovider kafe2/test 2>&1 | tail -1)
git -C /repo worktree remove --force $S/wt; rm -rf $S
line=$(/verif/tools/run_seeded.sh $ID); rc=$?
echo "$line"; echo "  suite with change: $suite"
/venv/bin/python - "$D" "$suite" "$line" "$rc" <<'PY'
import json,sys,subprocess
d,suite,line,rc=sys.argv[1:5]
m=json.load(open(d+"/meta.json"))
m["confirmed"]={"repo_commit":subprocess.run(["git","-C","/repo","rev-parse","--short","HEAD"],capture_output=True,text=True).stdout.strip(),
 "suite_with_change":suite.strip(),"run_seeded":line.strip(),"caught_by_quick_check":rc=="0"}
json.dump(m,open(d+"/meta.json","w"),indent=1)
PY
