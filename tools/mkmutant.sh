#!/bin/bash
# usage: tools/mkmutant.sh NAME FILE 'python-expr-old' 'python-expr-new'   -> writes tools/mutants/NAME.patch (unified diff -p1 vs /repo)
set -e
NAME="$1"; FILE="$2"; OLD="$3"; NEW="$4"
T=$(mktemp -d /tmp/mkmut-XXXXXX)
mkdir -p "$T/a/$(dirname $FILE)" "$T/b/$(dirname $FILE)"
cp "/repo/$FILE" "$T/a/$FILE"
/venv/bin/python - "$T/a/$FILE" "$T/b/$FILE" "$OLD" "$NEW" <<'P'
import sys
src=open(sys.argv[1]).read()
old,new=sys.argv[3],sys.argv[4]
assert src.count(old)==1, "pattern occurs %d times"%src.count(old)
open(sys.argv[2],'w').write(src.replace(old,new))
P
(cd "$T" && diff -u "a/$FILE" "b/$FILE" > "/verif/tools/mutants/$NAME.patch" || true)
rm -rf "$T"
echo "wrote tools/mutants/$NAME.patch"
