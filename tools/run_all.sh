#!/bin/bash
# usage: tools/run_all.sh [tier] [seed] [extra args...]  — runs every claimed check sequentially, prints one line each
TIER=${1:-quick}; SEED=${2:-0}; shift; shift
cd "$(dirname "$(readlink -f "$0")")/.."
for c in $(grep -v '^#' tools/ready.txt | sort); do
  out=$(./check $c --tier $TIER --seed $SEED "$@" 2>&1 | grep -E "^VIOLATION|^HELD|^INCONCLUSIVE|^RESULT" | head -3 | cut -c1-220 | tr '\n' ' ')
  echo "$c: $out"
done
