#!/bin/bash
# usage: tools/run_mutants_all.sh [parallel=3] [pattern]  — runs every tools/mutants/<CNN>*.patch against the quick tier of property CNN
# (property = first three characters of the file name, case-insensitive; "-revert-" files of another property's fix are named for the
# property that catches them).  Prints one line per patch: CAUGHT / MISSED / PATCH-FAILED / INCONCLUSIVE.
P=${1:-3}; PAT=${2:-}
cd "$(dirname "$(readlink -f "$0")")/.."
ls tools/mutants/*.patch | grep -i "${PAT}" | xargs -P $P -I{} sh -c '
f={}; b=$(basename $f .patch); c=$(echo $b | cut -c1-3 | tr a-z A-Z)
out=$(tools/run_mutant.sh $f $c 2>&1); rc=$?
if echo "$out" | grep -q "PATCH FAILED"; then echo "PATCH-FAILED $b";
elif [ $rc -eq 1 ] && echo "$out" | grep -q "^VIOLATION"; then echo "CAUGHT $b";
elif [ $rc -eq 2 ]; then echo "INCONCLUSIVE $b :: $(echo "$out" | grep INCONCLUSIVE | head -1 | cut -c1-150)";
else echo "MISSED $b"; fi'
