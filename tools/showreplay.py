#!/venv/bin/python
"""pretty-print replay witness files"""
import json, sys
for f in sys.argv[1:]:
    w = json.load(open(f))
    print("==", f)
    print("key:", w.get("key"), "obs:", w["observable"])
    d = w["detail"]
    if isinstance(d, dict) and "traceback" in d:
        print(d["traceback"][-1200:])
        d = {k: v for k, v in d.items() if k != "traceback"}
    print("detail:", json.dumps(d)[:600])
    c = w["case"]
    if "spec" in c:
        s = c["spec"]
        print("spec:", {k: (v if k in ("type", "cost", "minimizer", "dea", "density", "bin_evaluation") else (v if k == "model" else "...")) for k, v in s.items()})
        for op in c.get("ops", []):
            print("  op:", json.dumps(op)[:300])
    else:
        print(json.dumps(c)[:1500])
