#!/bin/bash
# usage: tools/run_mutant.sh <patch-file | -e 'sed-expr' file> CNN [check args...]
# Copies /repo/kafe2 to a scratch dir outside /repo and /verif, applies the patch there, runs ./check with
# KAFE2_SRC pointing at the copy (first on sys.path), removes the copy. Exit code = exit code of the check.
set -u
PATCH="$(readlink -f "$1")"; shift
SCRATCH=$(mktemp -d /tmp/kafe2-mut-XXXXXX)
mkdir -p "$SCRATCH/src"
cp -r /repo/kafe2 "$SCRATCH/src/kafe2"
find "$SCRATCH" -name __pycache__ -prune -exec rm -rf {} + 2>/dev/null
if ! (cd "$SCRATCH/src" && patch -p1 -s --fuzz=3 < "$PATCH"); then echo "PATCH FAILED: $PATCH"; rm -rf "$SCRATCH"; exit 3; fi
cd "$(dirname "$(readlink -f "$0")")/.."
KAFE2_SRC="$SCRATCH/src" ./check "$@" --no-evidence
rc=$?
rm -rf "$SCRATCH"
exit $rc
