#!/bin/bash
# usage: tools/run_seeded.sh <seeded-id> [check args...]
# Applies seeded/<id>/patch.diff to a scratch copy of /repo's working tree (outside /repo and /verif), runs
#  (1) the demonstration against the scratch copy (must fail) and against /repo (must pass),
#  (2) the check of the property named in meta.json against the scratch copy (must exit 1 with VIOLATION),
# and removes the scratch copy. Prints one summary line.
set -u
ID="$1"; shift
V="$(dirname "$(readlink -f "$0")")/.."; V="$(readlink -f "$V")"
D=$V/seeded/$ID
PROP=$(/venv/bin/python -c "import json;print(json.load(open('$D/meta.json'))['property'])")
S=$(mktemp -d /tmp/kafe2-seeded-XXXXXX); mkdir -p $S/src
cp -r /repo/kafe2 $S/src/kafe2; find $S -name __pycache__ -prune -exec rm -rf {} + 2>/dev/null
if ! (cd $S/src && patch -p1 -s --fuzz=3 < $D/patch.diff); then echo "$ID: PATCH FAILED"; rm -rf $S; exit 3; fi
(cd $S && MPLBACKEND=Agg PYTHONPATH=$S/src timeout 600 /venv/bin/python $D/demo.py >/dev/null 2>&1); demo_mut=$?
(cd $S && MPLBACKEND=Agg PYTHONPATH=/repo timeout 600 /venv/bin/python $D/demo.py >/dev/null 2>&1); demo_orig=$?
cd $V
out=$(KAFE2_SRC=$S/src ./check $PROP --no-evidence "$@" 2>&1); rc=$?
nviol=$(echo "$out" | grep -c '^VIOLATION')
rm -rf $S
echo "$ID: property=$PROP demo(with change)=$demo_mut demo(unchanged)=$demo_orig check_exit=$rc violations=$nviol :: $(echo "$out" | grep -E '^  key' | head -2 | cut -c1-160 | tr '\n' ' ')"
[ $rc -eq 1 ] && [ $demo_mut -ne 0 ] && [ $demo_orig -eq 0 ]
