#!/venv/bin/python
"""Regenerates seeded/README.md from the meta.json files (run after tools/confirm_seed.sh)."""
import glob
import json
import os

V = os.path.dirname(os.path.dirname(os.path.abspath(__file__)))
rows = []
for d in sorted(glob.glob(os.path.join(V, "seeded", "*", ""))):
    m = json.load(open(os.path.join(d, "meta.json")))
    c = m.get("confirmed") or {}
    if m.get("superseded"):
        now = "superseded"
    elif c.get("caught_by_quick_check"):
        now = "caught"
    elif m.get("demo_note") and "check_exit=1" in c.get("run_seeded", ""):
        now = "caught (author's demonstration defused by a later repair, see demo_note)"
    elif c:
        now = "MISSED"
    else:
        now = "not confirmed yet"
    rows.append((m["id"], m["property"], m["needs_to_manifest"], m.get("first_run", "-"), now, c.get("repo_commit", "-")))
out = [
    "# Seeded changes",
    "",
    "Each directory holds one change to kafe2 written by a fresh sub-agent that was given only the text of one property and its own",
    "scratch git worktree of /repo (nothing from /verif).  `patch.diff` applies to /repo HEAD, `demo.py` is the author's demonstration",
    "(exit 1 with the change, exit 0 without), `NOTES.md` the author's description (often with observations about the unchanged tree),",
    "`meta.json` what the change needs in order to manifest and what was confirmed here (`tools/confirm_seed.sh <id>`): the patch applies,",
    "kafe2's own suite gives the same result as on the unchanged tree (841 passed + the pre-existing failure test_deriv_by_par), the",
    "demonstration fails with and passes without the change, and the property's quick check exits 1 with a VIOLATION line on a scratch copy",
    "with the change (`tools/run_seeded.sh <id>`).  None of these changes is ever applied to /repo itself.  Five rounds were run (19, 19, 19, 14 and 6 agents",
    "); patches are re-based by hand when a later repair of /repo touches the same lines (`rebased` in meta.json).  `first run` is the",
    "verdict of the check as it stood when the change arrived; `superseded` = a later repair of /repo defuses the change (its demonstration",
    "passes with the change applied).",
    "",
    "| id | property | needs in order to manifest | first run | now | confirmed at /repo |",
    "|---|---|---|---|---|---|",
]
for r in rows:
    out.append("| %s | %s | %s | %s | %s | %s |" % r)
n_caught = sum(1 for r in rows if r[4].startswith("caught"))
n_sup = sum(1 for r in rows if r[4] == "superseded")
out += ["", "%d changes, %d caught by the quick tier of their property, %d superseded, %d other." % (len(rows), n_caught, n_sup, len(rows) - n_caught - n_sup)]
open(os.path.join(V, "seeded", "README.md"), "w").write("\n".join(out) + "\n")
print(out[-1])
