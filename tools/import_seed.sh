#!/bin/bash
# usage: tools/import_seed.sh CNN <slug> "<needs>"   — imports /tmp/seed-CNN/{patch.diff,demo.py,NOTES.md} as seeded/CNN-<slug>/
set -eu
P=$1; SLUG=$2; NEEDS=$3
D=/verif/seeded/$P-$SLUG; mkdir -p $D
SRC=${SEEDDIR:-/tmp/seed-}$P; cp $SRC/patch.diff $D/patch.diff; cp $SRC/demo.py $D/demo.py; cp $SRC/NOTES.md $D/NOTES.md
/venv/bin/python - "$P" "$SLUG" "$NEEDS" "$D" <<'PY'
import json,sys
p,slug,needs,d=sys.argv[1:5]
json.dump({"id":"%s-%s"%(p,slug),"property":p,"author":"fresh sub-agent given only the property text and a scratch worktree","needs_to_manifest":needs,"confirmed":{}},open(d+"/meta.json","w"),indent=1)
PY
echo imported $D
