#!/venv/bin/python
"""Regenerates MANIFEST.json from the table below + the check modules that exist (run from /verif)."""
import json
import os
import subprocess
import sys

VERIF = os.path.dirname(os.path.dirname(os.path.abspath(__file__)))
sys.path.insert(0, VERIF)

TECH = {
    "C01": ("reference-model monitor: independent numpy -2lnL evaluated beside every cost read (single fits and MultiFits with shared sources driven through toggle / late-declaration scripts)", "3 C01"),
    "C02": ("history monitor with shadow covariance model + icontract class invariants on CovMat", "3 C02"),
    "C03": ("differential trace monitor: live fit vs freshly built twins (T1 reads deleted, T2 normal form, T3 normal form at the fitted values after do_fit) after every op; injected failing do_fit", "3 C03"),
    "C04": ("reference interpreter over random graph programs + call-counter monitor + reach counters", "3 C04"),
    "C05": ("post-condition monitor on do_fit: closed-form GLS oracle (single fits and MultiFits with shared sources and member constraints)", "3 C05"),
    "C06": ("post-condition monitor on do_fit: independent objective probed around the reported optimum (single fits and MultiFits with mixed members); reference iteration map for the iterative algorithm", "3 C06"),
    "C07": ("definitional oracles (reference Hessian / profile / contour level / band) on fitted objects, also after fixing / releasing a parameter where it stands, with inactive limits, and for the members of a MultiFit by parameter name", "3 C07"),
    "C08": ("trace monitor: snapshot of fit + minimizer state after every post-fit query; fault injection (cost function raises at its k-th evaluation) for requests that fail; configuration call after the last query", "3 C08"),
    "C09": ("round-trip differential monitor + parsed-document monitor on save/load; original and reloaded object driven through the same later operations", "3 C09"),
    "C10": ("formula monitor over fix/release/constraint histories interleaved with pure queries on grids of other lengths", "3 C10"),
    "C11": ("conservation monitor (sum of member costs) + joint-covariance reference + member results by parameter name; injected failing fits", "3 C11"),
    "C12": ("shadow multiset + conservation invariant (icontract) + order-independence metamorphic monitor", "3 C12"),
    "C13": ("exactness-class oracle for quadrature rules (antiderivative differences, textbook error constants)", "3 C13"),
    "C14": ("pairwise differential monitor over equivalent specifications", "3 C14"),
    "C15": ("metamorphic monitor: point permutation, parameter permutation, unit scaling", "3 C15"),
    "C16": ("pure-function monitor vs 50-digit mpmath reference + interception of values handed to backends", "3 C16"),
    "C17": ("parse-back monitor with exact decimal arithmetic on formatted strings / reports", "3 C17"),
    "C18": ("matplotlib artist-inspection monitor", "3 C18"),
    "C19": ("negative-testing trace monitor with twin object (state unchanged after rejection)", "3 C19"),
}


# checks that run silent on the unchanged tree (apart from listed known findings) and have been validated with mutants
READY = [l.strip() for l in open(os.path.join(VERIF, "tools", "ready.txt")) if l.strip() and not l.startswith("#")]


def main():
    props = [json.loads(l) for l in open(os.path.join(VERIF, "properties.jsonl"))]
    repo_fix = subprocess.run(["git", "-C", "/repo", "log", "--format=%h %s"], capture_output=True, text=True).stdout.splitlines()
    checks, na = [], []
    for p in props:
        pid = p["id"]
        if os.path.exists(os.path.join(VERIF, "checks", pid.lower() + ".py")) and pid in READY:
            tech, ref = TECH[pid]
            checks.append(
                {
                    "property_id": pid,
                    "quick_cmd": "./check %s --tier quick" % pid,
                    "thorough_cmd": "./check %s --tier thorough" % pid,
                    "evidence_file": "/verif/evidence/%s.json" % pid,
                    "replay_cmd_template": "./check %s --replay {path}" % pid,
                    "engine": "runtime-monitor",
                    "level_claimed": {
                        "category": "exploration",
                        "text": "Runtime monitoring: the real code is driven by seeded, stratified hostile workloads while an independent oracle observes every "
                        "execution. Held means: no oracle failed on the executions listed in the evidence file AND every coverage floor (anchor functions "
                        "entered, observables compared, op kinds executed, distinct non-trivial cases) was met; otherwise the check is inconclusive (exit 2). "
                        "This is the right level because the property quantifies over unbounded inputs/histories that can only be sampled.",
                        "design_ref": "DESIGN.md §" + ref,
                    },
                    "level_note": "Trusted: numpy/scipy/iminuit numerics, the reference model in vlib/ (independent of kafe2, cross-checked by mutants), CPython. "
                    "Not covered: inputs outside the generator bounds stated in DESIGN.md; defects smaller than the stated tolerances.",
                    "technique": tech,
                }
            )
        else:
            na.append({"property_id": pid, "reason": "monitor not built yet (designed in DESIGN.md §3 %s); not claimed until its check runs silent on the unchanged tree" % pid})
    man = {
        "version": 1,
        "setup_cmd": "/venv/bin/python -m pip install -q --no-index --find-links /opt/veriftools/wheels --target /verif/.deps icontract",
        "hooks": {
            "guard": "KAFE2_VERIF",
            "enable": "no hooks are compiled into /repo: monitors attach from outside (public API recorder, reads of private state at quiescent points, "
            "icontract decoration of live classes, sys.monitoring reach counters). kafe2 is installed editable in /venv, so every check runs /repo's working tree.",
            "baseline_off_cmd": "cd /repo && /venv/bin/python -m pytest -ra -q -p no:cacheprovider --timeout=900 --continue-on-collection-errors",
            "source_commits": [],
            "add_only": True,
        },
        "engines": [
            {
                "name": "runtime-monitor",
                "path": "/verif/check",
                "serves_properties": [c["property_id"] for c in checks],
                "kind_free_text": "seeded workload generators + reference-model / trace / invariant monitors, sharded subprocess runner with watchdog, sys.monitoring reach counters",
            }
        ],
        "checks": checks,
        "not_applicable": na,
        "notes": "Exit codes: 0 held (or only listed known findings), 1 VIOLATION, 2 INCONCLUSIVE (never a verdict). Known findings: /verif/known_findings.json. "
        "fix: commits in /repo: " + "; ".join(l for l in repo_fix if " fix:" in l),
    }
    if not na:
        man.pop("not_applicable")
    with open(os.path.join(VERIF, "MANIFEST.json"), "w") as f:
        json.dump(man, f, indent=1)
        f.write("\n")
    import jsonschema

    jsonschema.validate(man, json.load(open("/root/.vp/MANIFEST.schema.json")))
    print("MANIFEST.json: %d checks, %d not claimed" % (len(checks), len(na)))


if __name__ == "__main__":
    main()
